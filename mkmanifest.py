#!/usr/bin/env python3
"""Regenerates MANIFEST.json from jobs.py (claimed checks) and NA (not applicable)."""
import json, subprocess
from jobs import PROPS
props = [json.loads(l) for l in open('properties.jsonl')]
TEXT = {
 "C01": "Bounded symbolic model checking of the implementation: every history within the bound (operation choice forked, key/value contents and all 32-bit hashes symbolic) is executed on the go/ssa of the current tree; each Get/GetAppend/Has/Count/Items result is an SMT obligation against a reference map. Holds for all key contents and all hash layouts within the stated history/shape bounds; nothing outside them.",
 "C02": "Bounded symbolic model checking: histories with clean Close+Open inserted at symbolic positions, executed on the SSA of the current tree with symbolic contents and hashes; after every reopen contents/Count equal the reference map, Close released the lock, the reopen ran no recovery; plus metadata write/read round trips with fully symbolic field values.",
 "C15": "Bounded symbolic model checking: histories of put/delete/compact/restart; after every Compact the directory listing, live-segment set and side files are checked and the database must stay usable (Sync, Put, Delete, Close, Open).",
 "C03": "Bounded symbolic model checking with fault injection as path forks: every mutating file-system call of the armed history suffix is a crash point (and every 512-aligned tear of a data write), then the real recovery runs symbolically and the recovered observable state must equal the reference before or after the operation in flight (one disjunctive SMT obligation per path); contents and hash layout symbolic.",
 "C04": "As C03 over three epochs: crash in epoch 1 (torn writes included), second crash at any file-system call of the recovering Open, acknowledged operations in the recovered session, process death, final recovery and a repeated recovery; every acknowledged write must be present, recovery idempotent, segment append offsets equal file lengths.",
 "C06": "Bounded symbolic model checking under the property's power-loss model (harness FileSystem: directory ops durable, data volatile until File.Sync): histories with durability points, power failure between any two operations (thorough: at any mutating FS call), symbolic choice of the surviving prefixes, real recovery executed symbolically; each key must hold its durable value or a later one (one disjunctive SMT obligation per key).",
 "C09": "As C06 for the clean-shutdown checkpoint: after Close returns nil a power failure (right after Close; thorough: at any FS call of the next Open) with a symbolic choice of what survives in every file must leave exactly the closed contents.",
 "C11": "Quiescent part: bounded symbolic model checking (as C01) with a full Items scan after every step of every history - each live key exactly once with its current value, then ErrIterationDone on further calls - for all hash layouts within the bound. Concurrent part: scanner and writer (and Compact) as engine threads, all schedules within the bound: truthfulness and completeness of the scan as SMT obligations over the recorded call/return stamps.",
 "C14": "Heap-provenance obligations decided on the symbolic executor's object graph for every explored path (returned slices are not reachable from the DB / file buffers; the DB does not reach caller-owned arrays) plus a semantic double check (caller overwrites, later Put/Compact/Close, compare) as SMT obligations; fs.Mem only.",
 "C16": "Symbolic execution at the real constants for boundary key/value lengths (contents partly symbolic): byte-exact round trips through Put/Get/Has/Items, clean restart and crash recovery; rejection of over-long keys/values without side effects; over-long lookups never match a stored key with the same low 16 length bits.",
 "C05": "Bounded symbolic model checking with threads: Compact runs as one engine thread, a writer as another; the scheduler's choice at every lock acquisition is explored exhaustively within the bound (writer before/between/after any two records compaction processes, between pick and seal), contents and hashes symbolic; afterwards full comparison with the reference, directory check, and process death + real recovery (thorough: crash at any FS call inside the concurrent run).",
 "C07": "Bounded symbolic model checking with threads: all schedules (context switch at every lock acquisition) of 2-3 threads with symbolic operation kinds/keys/values; linearizability is one disjunctive SMT obligation over the real-time-respecting permutations. Rests on C10's lockset monitor for the soundness of switching only at lock acquisitions.",
 "C10": "Decided part: no panic (every implicit runtime check on every path is an obligation), no deadlock (engine-level detection on all schedules), lock discipline (Eraser-style lockset monitor over symbolic paths, per heap cell owned by pogreb), Close racing with every other method, every method on a closed DB. The background worker runs as an engine thread over a model of context/ticker/select (bounded number of ticks); after Close no thread started by the DB may be alive. Not decided: the runtime race detector's verdict, real memory faults.",
 "C12": "Bounded symbolic model checking with threads: Backup as one thread, a writer as another, schedule symbolic at lock acquisitions and at Backup's lock-free points; the copy is opened by the real recovery and compared (one disjunctive obligation over admissible prefixes); the source must be unaffected.",
 "C13": "Lock acquisition/release of fs.OS executed symbolically over a kernel model (stat/open/flock/unlink/close), every interleaving of the system calls of one releasing owner and 2-3 openers explored (scheduling points between the calls): at most one holder at any instant; counterexamples replayed on the real kernel. DB level: session sequences with clean/unclean/failed-recovery ends on fs.Mem: recovery iff unclean, contents preserved, competing Open rejected without touching the directory.",
 "C17": "Differential symbolic execution: one symbolic program is run on fs.Mem (from its source), fs.OS and fs.OSMMap (over a kernel model with mmap views) inside the same path; every API result and the segment-file bytes must agree (SMT obligations over shared symbolic contents), no access to unmapped memory.",
 "C08": "Differential symbolic execution of recoveryIterator/segmentIterator (with bufio and io.ReadFull from stdlib SSA) against a reference decoder on segments whose tail bytes are fully symbolic: same accepted records, truncation to the accepted prefix, no error/panic, for all tail contents up to the stated length.",
 "C18": "Differential symbolic execution of the encoders/decoders against a reference written from docs/design.md; all contents symbolic, sizes case-split; MurmurHash3 compared as bit-vector terms for all inputs of each length.",
 "C19": "Every allocation executed during recovery of a segment with a fully symbolic damaged header is an SMT obligation size <= budget, the size being a symbolic expression of the header; unsat covers all 2^48 headers within the tail-length bound.",
}
NOTE = "Trusted: the SSAX translator (go/ssa -> bit-vector terms; validated by native replay of every counterexample), z3 4.8.12, the stubs listed in evidence.assumptions (UF hash/CRC, gob token model, fs.Mem executed from source). Scaled constants (slotsPerBucket, maxSegments) where evidence.coverage.jobs says so."
NA_REASON = {}
checks = []
for p in props:
    pid = p['id']
    if pid in PROPS and pid in TEXT:
        checks.append({
            "property_id": pid,
            "quick_cmd": "./check %s --tier quick" % pid,
            "thorough_cmd": "./check %s --tier thorough" % pid,
            "evidence_file": "evidence/%s.json" % pid,
            "replay_cmd_template": "./check %s --replay {path}" % pid,
            "engine": "ssax",
            "level_claimed": {"category": "model_checking", "text": TEXT[pid], "design_ref": "DESIGN.md section 6, " + pid},
            "level_note": NOTE,
            "technique": "bounded symbolic execution of the real code's go/ssa + SMT (z3), counterexamples replayed natively",
        })
na = [{"property_id": p['id'], "reason": NA_REASON.get(p['id'], "check not built yet (work in progress); see DESIGN.md")} for p in props if p['id'] not in [c['property_id'] for c in checks]]
hooks_commits = ["56ce8d5", "7060a7d"]
m = {"version": 1, "setup_cmd": "./setup.sh",
     "hooks": {"guard": "verif", "enable": "engine and native replays build /repo with -tags=verif (verifYield hooks at the lock-free points of Compact/Backup and between the system calls of the lock file); harnesses are injected by overlay",
               "baseline_off_cmd": "cd /repo && go test -vet=off -count=1 ./...", "source_commits": hooks_commits, "add_only": True},
     "engines": [{"name": "ssax", "path": "engine", "serves_properties": [c['property_id'] for c in checks],
                  "kind_free_text": "symbolic executor over go/ssa of /repo's working tree (written for this task), SMT-LIB2 to z3; driver ./check"}],
     "checks": checks, "not_applicable": na,
     "notes": "Exit codes of ./check: 0 held / only known findings, 1 reproduced unlisted violation, 2 machinery failure (ENCODING-ERROR, vacuity)."}
json.dump(m, open('MANIFEST.json', 'w'), indent=1)
print(len(checks), "checks;", len(na), "not applicable")
