# Per-property job tables for ./check. Every job is one SSAX run:
#   harness (Go function in /verif/harness/<pkg>), cases (vCase values, run in
#   parallel), scale (constant rewrites applied to the current source), pkg.
COMMON_ASSUME = [
    "hash.Sum32WithSeed modelled as an uninterpreted function of (key bytes, seed) in DB-level harnesses (all hash layouts at once); the real function is encoded and compared with a reference in C18",
    "crc32.ChecksumIEEE: real on concrete bytes, uninterpreted function per length on symbolic bytes",
    "encoding/gob replaced by a 16-byte token model (wire format trusted); log/expvar calls are no-ops",
    "crypto/rand seed: one arbitrary symbolic 32-bit value per run",
    "fs.Mem executed from its own SSA; map iteration order taken sorted",
    "bounded: see coverage.bounds; nothing is claimed outside",
]
SC = "maxSegments=16,slotsPerBucket=2"

PROPS = {
    "C01": {
        "quick": [
            {"harness": "H_C01_seq_q", "cases": list(range(8)), "scale": SC},
            {"harness": "H_C01_chain31", "cases": [4], "scale": "maxSegments=16"},
        ],
        "thorough": [
            {"harness": "H_C01_seq_t", "cases": list(range(8)), "scale": SC},
            {"harness": "H_C01_chain31", "cases": list(range(9)), "scale": "maxSegments=16", "chunk": 1},
        ],
        "covers": {"quick": ["C01.seq.done", "C01.level>0", "C01.overflow-bucket-created", "C01.chain.done", "C01.chain.overflow-bucket-at-31-slots"]},
        "bounds": {"quick": "REAL slotsPerBucket=31: 34 keys in one bucket chain (low 3 hash bits equal, full hashes symbolic and distinct), delete of the head bucket's first key then one symbolic step on the keys at the first/last slot of head and overflow bucket (thorough: 2 symbolic steps from 9 operations); scaled part: 3 keys (8 bytes, symbolic content and hash), prefix of 3 puts + 2 symbolic steps from {put k, delete k, compact, sync}, 2-byte symbolic values, slotsPerBucket scaled to 2, 2 records per segment",
                   "thorough": "as quick with 4 symbolic steps"},
        "assumptions": COMMON_ASSUME,
        "outside": "longer histories, more than 3 keys, slotsPerBucket=31 (scaled to 2), level>3, other FileSystems (C17), real MurmurHash (C18)",
    },
    "C18": {
        "quick": [
            {"harness": "H_C18_rec", "cross": "cvc5", "cases": list(range(32))},
            {"harness": "H_C18_hdr"}, {"harness": "H_C18_bucket"}, {"harness": "H_C18_names"}, {"harness": "H_C18_meta"},
            {"harness": "H_C18_hash", "cross": "cvc5", "cases": list(range(0, 13))},
        ],
        "thorough": [
            {"harness": "H_C18_rec", "cross": "cvc5", "cases": list(range(32))},
            {"harness": "H_C18_hdr"}, {"harness": "H_C18_bucket"}, {"harness": "H_C18_names"}, {"harness": "H_C18_meta"},
            {"harness": "H_C18_hash", "cross": "cvc5", "cases": list(range(0, 17))},
        ],
        "covers": {"quick": ["C18.rec.done", "C18.hdr.done", "C18.bucket.done", "C18.names.done", "C18.hash.done", "C18.meta.done"]},
        "bounds": {"quick": "records: key 0..3 x value 0..3 bytes x {put,delete}, symbolic contents; bucket: all 31 slots and next fully symbolic; header; MurmurHash3 on 0..12 symbolic bytes and symbolic seed",
                   "thorough": "as quick, MurmurHash3 on 0..16 bytes"},
        "assumptions": COMMON_ASSUME,
        "outside": "gob wire format of the .pmt side files (token model), longer records (framing is length-parametric), golden directories produced by running the pinned binary",
    },
    "C08": {
        "quick": [
            {"harness": "H_C08_iter_s", "cases": list(range(12))},
            {"harness": "H_C08_iter_q", "cross": "cvc5", "cases": list(range(0, 22))},
            {"harness": "H_C08_iter_big", "cross": "cvc5", "cases": list(range(0, 22))},
            {"harness": "H_C08_two", "cases": list(range(0, 28))},
            {"harness": "H_C08_boundary", "cases": [2, 5, 9], "chunk": 1},
        ],
        "thorough": [
            {"harness": "H_C08_iter_s", "cases": list(range(12))},
            {"harness": "H_C08_iter_q", "cross": "cvc5", "cases": list(range(0, 38))},
            {"harness": "H_C08_iter_big", "cross": "cvc5", "cases": list(range(0, 38))},
            {"harness": "H_C08_two", "cases": list(range(0, 40))},
            {"harness": "H_C08_boundary", "cases": list(range(12)), "chunk": 2},
            {"harness": "H_C08_crc", "timeout_ms": 900000, "cross": "z3-new", "maxsec": 3300},
        ],
        "covers": {"quick": ["C08.iter.done", "C08.iter.tail-discarded", "C08.iter.record-from-tail-accepted", "C08.two.done", "C08.two.damaged-then-intact", "C08.boundary.done", "C08.boundary.record-across-buffer-refill-accepted"], "thorough": ["C08.iter.done", "C08.iter.tail-discarded", "C08.iter.record-from-tail-accepted", "C08.two.done", "C08.two.damaged-then-intact", "C08.crc.done"]},
        "bounds": {"quick": "segment = header + p in {0,1} valid records + T fully symbolic tail bytes, T = 0..16; claimed record size <= 64 (exact framing) and > 64 up to 2^31+65545 (symbolic-length allocation)",
                   "thorough": "T = 0..24"},
        "assumptions": COMMON_ASSUME,
        "outside": "tails longer than the bound, more than 1 valid record before the tail, assembly CRC = generic CRC; positions relative to the 4096-byte bufio buffer: a 14-byte symbolic tail starting 0..11 bytes before the first refill boundary (quick: 3 of the 12 positions)",
    },
    "C19": {
        "quick": [
            {"harness": "H_C19_alloc", "cross": "cvc5", "cases": list(range(0, 8))},
        ],
        "thorough": [
            {"harness": "H_C19_alloc", "cross": "cvc5", "cases": list(range(0, 16))},
        ],
        "covers": {"quick": ["C19.done"]},
        "bounds": {"quick": "header + p in {0,1} valid records + fully symbolic tail of 6..15 bytes; every make/append executed during recoveryIterator.next is an obligation size <= 2*(bytes present)+64KiB, size being a symbolic expression of the 6 header bytes (all 2^48 headers at once)",
                   "thorough": "tails up to 27 bytes"},
        "assumptions": COMMON_ASSUME + ["allocation accounting: bytes requested by make/append/new in executed SSA (Go runtime internals not modelled)"],
        "outside": "wall-clock and RSS of the real process (measured only in the native replay of a counterexample)",
    },
    "C02": {
        "quick": [
            {"harness": "H_C02_seq_q", "cases": list(range(9)), "scale": SC},
            {"harness": "H_C02_meta", "cases": [0, 1, 2, 3], "chunk": 4},
            {"harness": "H_C02_xfs", "cases": [0, 1], "scale": SC + ",initialMmapSize=1024", "replay": False},
        ],
        "thorough": [
            {"harness": "H_C02_xfs", "cases": [0, 1], "scale": SC + ",initialMmapSize=1024", "replay": False},
            {"harness": "H_C02_seq_t", "cases": list(range(9)), "scale": SC},
            {"harness": "H_C02_meta", "cases": [0, 1, 2, 3], "chunk": 4},
        ],
        "covers": {"quick": ["C02x.done", "C02x.reopened-through-the-other-file-system", "C02.seq.done", "C02.reopen-mid-history", "C02.level>0", "C02.free-overflow-buckets-persisted", "C02.meta.done"]},
        "bounds": {"quick": "3 keys, prefix of 3 puts + 2 symbolic steps from {put k, delete k, compact, sync, close+open}, then close+open, full comparison, another idle close+open; metadata round trips with fully symbolic field values and 0..3 free-list entries",
                   "thorough": "4 symbolic steps"},
        "assumptions": COMMON_ASSUME,
        "outside": "gob wire format, longer histories; the OS <-> mmap cross reopen runs over the kernel model (3 sessions alternating file systems, 1 symbolic step each, 2 keys)",
    },
    "C15": {
        "quick": [
            {"harness": "H_C15_q", "cases": list(range(7)), "scale": SC},
        ],
        "thorough": [
            {"harness": "H_C15_t", "cases": list(range(9)), "scale": SC},
        ],
        "covers": {"quick": ["C15.done", "C15.compacted", "C15.restart", "C15.compacted-after-restart", "C15.all-segments-removed"]},
        "bounds": {"quick": "2 keys, prefix 3 puts + 3 symbolic steps from {put, delete, compact, sync, close+open}; directory listing, live-segment set and usability (Sync/Put/Delete/Close/Open) checked after every compaction and at the end",
                   "thorough": "3 keys, 4 symbolic steps"},
        "assumptions": COMMON_ASSUME,
        "outside": "descriptor / mapping counts of a real process (fs.Mem handles only), growth over unbounded histories (bounded histories only), Backup after compaction (see C12)",
    },
    "C03": {
        "quick": [
            {"harness": "H_C03_q", "cases": list(range(7)), "scale": SC},
            {"harness": "H_C03_tear", "cases": list(range(7)), "scale": SC},
            {"harness": "H_C03_tearhdr", "cases": [0, 1], "scale": SC},
        ],
        "thorough": [
            {"harness": "H_C03_tearhdr", "cases": list(range(7)), "scale": SC},
            {"harness": "H_C03_t", "cases": list(range(7)), "scale": SC},
            {"harness": "H_C03_tear", "cases": list(range(7)), "scale": SC},
        ],
        "covers": {"quick": ["C03.done", "C03.crash-inside-operation", "C03.crash-between-operations", "crash.torn-write", "crash.before-fs-call"]},
        "bounds": {"quick": "2 keys; prefix of puts, then 2 symbolic steps from {put, delete, compact, sync, close+open}; crash point = every mutating file-system call of those steps (fork per call) plus 'dies between operations'; data writes torn at every 512-aligned offset inside the write (300-byte values so that records straddle sectors); then recovering Open and comparison with the reference before OR after the operation in flight",
                   "thorough": "3 symbolic steps"},
        "assumptions": COMMON_ASSUME + ["process-crash model of the property: returned calls fully applied, directory operations atomic, data writes sector-atomic; implemented by a harness FileSystem wrapped around fs.Mem"],
        "outside": "more than 2 keys / 3 steps after the prefix, tears inside index buckets (512-byte aligned writes are atomic in the model), crashes in later epochs (C04)",
    },
    "C04": {
        "quick": [
            {"harness": "H_C04_q", "cases": list(range(5)), "scale": SC},
            {"harness": "H_C04_tear", "cases": list(range(5)), "scale": SC},
            {"harness": "H_C04_reuse", "scale": SC},
            {"harness": "H_C04_tearhdr", "cases": [0, 1], "scale": SC},
        ],
        "thorough": [
            {"harness": "H_C04_tearhdr", "cases": list(range(5)), "scale": SC},
            {"harness": "H_C04_reuse", "scale": SC},
            {"harness": "H_C04_t", "cases": list(range(5)), "scale": SC},
            {"harness": "H_C04_tear", "cases": list(range(5)), "scale": SC},
        ],
        "covers": {"quick": ["C04.done", "C04.crash-during-recovery", "C04.epoch1-torn-write", "C04r.done", "C04r.newest-segment-has-lower-id-than-an-older-one"]},
        "bounds": {"quick": "2 keys; epoch 1 = prefix + 1 operation cut by a crash at any mutating FS call (torn writes included); epoch 2 = recovering Open cut by a second crash at any of its FS calls, or not; epoch 3 = 1 acknowledged operation then process death; final recovery and a further recovery from the same image",
                   "thorough": "2 acknowledged operations in epoch 3"},
        "assumptions": COMMON_ASSUME + ["process-crash model as C03"],
        "outside": "more than 3 crash epochs, compaction inside the recovered session (covered for single sessions by C05)",
    },
    "C06": {
        "quick": [
            {"harness": "H_C06_q", "cases": list(range(6)), "scale": SC},
            {"harness": "H_C06_sw", "cases": list(range(6)), "scale": SC},
            {"harness": "H_C06_compact", "cases": list(range(4)), "scale": SC},
            {"harness": "H_C06_rec", "cases": list(range(6)), "scale": SC},
        ],
        "thorough": [
            {"harness": "H_C06_rec", "cases": list(range(6)), "scale": SC},
            {"harness": "H_C06_compact", "cases": list(range(4)), "scale": SC},
            {"harness": "H_C06_t", "cases": list(range(6)), "scale": SC},
            {"harness": "H_C06_sw", "cases": list(range(6)), "scale": SC},
            {"harness": "H_C06_mid", "cases": list(range(6)), "scale": SC},
            {"harness": "H_C06_swmid", "cases": list(range(6)), "scale": SC},
        ],
        "covers": {"quick": ["C06.session-started-with-recovery", "C06c.done", "C06c.power-failure-inside-compaction", "C06.done", "C06.durability-point", "C06.rolled-over", "power.all-unsynced-lost", "power.one-file-loses-suffix", "power.nothing-lost"]},
        "bounds": {"quick": "compaction scenario: 2 synced puts, 2 unsynced symbolic writes, Compact with a power failure at every mutating FS call inside it; general scenario: 2 keys; prefix 2 puts then 3 symbolic steps from {put, delete, compact, sync} (explicit-Sync mode) / 2 steps in sync-after-write mode; power failure between any two operations; surviving prefixes: all kept | all unsynced data lost | one symbolic segment file keeps a symbolic proper prefix of its pending writes/truncations (last write cut at a 512-aligned offset) while the others keep everything",
                   "thorough": "4 steps; additionally power failure at every mutating FS call inside an operation"},
        "assumptions": COMMON_ASSUME + ["power-loss model of the property implemented by a harness FileSystem around fs.Mem: directory operations durable and ordered, file data/length volatile until File.Sync"],
        "outside": "combinations where two or more files each lose a different proper suffix, more than 2 keys, histories longer than the bound, real device caches",
    },
    "C09": {
        "quick": [
            {"harness": "H_C09_q", "cases": list(range(7)), "scale": SC},
            {"harness": "H_C09_sw", "cases": list(range(7)), "scale": SC},
            {"harness": "H_C09_s2", "cases": list(range(5)), "scale": SC},
            {"harness": "H_C09_race", "scale": SC},
        ],
        "thorough": [
            {"harness": "H_C09_race", "scale": SC},
            {"harness": "H_C09_s2", "cases": list(range(5)), "scale": SC},
            {"harness": "H_C09_t", "cases": list(range(7)), "scale": SC},
            {"harness": "H_C09_sw", "cases": list(range(7)), "scale": SC},
            {"harness": "H_C09_mid", "cases": list(range(7)), "scale": SC},
        ],
        "covers": {"quick": ["C09.done", "C09b.done", "C09r.done", "power.nothing-lost"]},
        "bounds": {"quick": "2 keys; (a) prefix 2 puts + 1 symbolic step from {put, delete, compact, sync, close+open}, Close, power failure right after Close; (b) the closing session is the second one on the directory: puts, Close, Open, 1 symbolic step, Close, power failure; (c) Close landing at every lock-free point of a running Compact that sealed the current segment, then power failure; surviving prefixes as C06 but over all files (index, metadata, segments); both sync modes",
                   "thorough": "2 steps; failure also at every mutating FS call of the next Open"},
        "assumptions": COMMON_ASSUME + ["power-loss model as C06"],
        "outside": "as C06",
    },
    "C11": {
        "quick": [
            {"harness": "H_C11_seq_q", "cases": list(range(8)), "scale": SC},
            {"harness": "H_C11_scan_q", "cases": list(range(30)), "scale": SC, "chunk": 3, "replay": False},
        ],
        "thorough": [
            {"harness": "H_C11_seq_t", "cases": list(range(8)), "scale": SC},
            {"harness": "H_C11_scan_q", "cases": list(range(30)), "scale": SC, "chunk": 3, "replay": False},
            {"harness": "H_C11_scan_c", "cases": list(range(30)), "scale": SC, "chunk": 2, "replay": False, "maxsec": 3300},
            {"harness": "H_C11_scan_t", "cases": list(range(30)), "scale": SC, "chunk": 1, "replay": False, "maxsec": 3300},
        ],
        "covers": {"quick": ["C01.seq.done", "C01.level>0", "C01.overflow-bucket-created", "C11.scan.done", "C11.scan.index-grew"]},
        "bounds": {"quick": "concurrent part: scanner thread (Next until done, then once more) and writer thread (2 symbolic Put/Delete over 3 preloaded + 2 new keys, forcing splits that move keys during the scan; thorough: 3 ops, or 1 op plus a Compact thread), all schedules at lock acquisitions, 3 patterns of low hash bits: every returned pair was put before that Next returned, every untouched preloaded key is returned, done stays done. Quiescent part: 3 keys, prefix 3 puts + 2 symbolic steps {put, delete, compact, sync}; a full Items scan after every step must return every live key exactly once with its value, then ErrIterationDone twice; symbolic hashes (overflow chains, holes after deletes, mid-level split pointers reached by the solver); slotsPerBucket scaled to 2",
                   "thorough": "prefix 4 puts + 3 steps"},
        "assumptions": COMMON_ASSUME,
        "outside": "more than one writer, hash layouts other than the 3 low-bit patterns in the concurrent part, slotsPerBucket=31; schedule-dependent counterexamples of the concurrent part are not replayed natively (no hook inside Next/Put)",
    },
    "C14": {
        "quick": [
            {"harness": "H_C14_q", "cases": list(range(5)), "scale": SC, "replay": False},
            {"harness": "H_C14_mmap", "cases": list(range(5)), "scale": SC + ",initialMmapSize=1024", "replay": False},
            {"harness": "H_C14_os", "cases": list(range(5)), "scale": SC, "replay": False},
        ],
        "thorough": [
            {"harness": "H_C14_t", "cases": list(range(5)), "scale": SC, "replay": False},
            {"harness": "H_C14_mmap", "cases": list(range(5)), "scale": SC + ",initialMmapSize=1024", "replay": False},
            {"harness": "H_C14_os", "cases": list(range(5)), "scale": SC, "replay": False},
        ],
        "covers": {"quick": ["C14.done"]},
        "bounds": {"quick": "fs.Mem (from source), fs.OS and fs.OSMMap (kernel model, mapping scaled to 1 KiB; reading a result after Close = after munmap is a fault obligation); 2 keys, 2 symbolic steps {put, delete, compact}; Get, GetAppend (insufficient and sufficient capacity), full Items scan; heap-provenance obligations on every path + overwrite/compact/close/reopen double check",
                   "thorough": "3 steps, 3-byte values"},
        "assumptions": COMMON_ASSUME + ["provenance obligations are facts about the engine's heap graph on each explored path (object identity of backing arrays); they are not replayed natively because aliasing of fs.Mem buffers is not observable by a native run"],
        "outside": "real page faults of a real process (modelled as an obligation on the mmap view object)",
    },
    "C16": {
        "quick": [
            {"harness": "H_C16_rt", "cases": list(range(30)), "chunk": 3},
            {"harness": "H_C16_over", "cases": [0, 1, 2], "chunk": 1},
            {"harness": "H_C16_seg", "cases": [0, 1, 2], "chunk": 3, "scale": "maxSegments=16"},
        ],
        "covers": {"quick": ["C16.rt.done", "C16.over.done", "C16.seg.done", "C16s.rolled-over"]},
        "bounds": {"quick": "key lengths {0,1,2,65534,65535} x value lengths {0,1,2,511,512,513}: Put/Get/Has/Count/Items, clean restart, crash recovery (first 3 and last byte of key and value symbolic, rest a concrete pattern); over-long keys 65536..65538 sharing prefix and low 16 length bits with a stored short key; value of 512 MiB + 1 (virtual, arithmetic only); real constants (no scaling)"},
        "assumptions": COMMON_ASSUME,
        "outside": "key lengths strictly between the representatives, values near 512 MiB actually materialised; segment-capacity boundary: records one byte short of / exactly / one byte over the remaining space and one larger than a whole segment (64-byte capacity)",
    },
    "C05": {
        "quick": [
            {"harness": "H_C05_q", "cases": [c for c in range(72) if (c // 4) % 3 != 2], "scale": SC, "chunk": 3},
        ],
        "thorough": [
            {"harness": "H_C05_r", "cases": list(range(72)), "scale": SC, "chunk": 4},
            {"harness": "H_C05_t", "cases": list(range(72)), "scale": SC, "chunk": 4},
            {"harness": "H_C05_crash", "cases": list(range(72)), "scale": SC, "chunk": 4},
        ],
        "covers": {"quick": ["C05.done", "C05.joined", "C05.compacted"]},
        "bounds": {"quick": "hash layouts restricted to 3 shapes (one chain / two keys sharing a chain / all apart) with pairwise distinct full hashes (thorough: full-hash collisions allowed); 3 keys; 4 prefix shapes (dead record without delete marker / delete marker forcing older segments / three segments / picked current segment with room for a delete marker next to an unpicked older segment); thread T1 = Compact, thread T2 = 1 symbolic Put/Delete (thorough: followed by a Get racing with the rest of the compaction); schedule symbolic at every lock acquisition (the writer lands before/between/after any two records compaction processes); then full comparison, directory check, process death and recovery",
                   "thorough": "2 writer operations; additionally a crash at any mutating FS call of the concurrent execution"},
        "assumptions": COMMON_ASSUME + ["threads: context switches at lock acquisitions, yields, thread exit (sound given the lock discipline checked by C10's monitor)"],
        "outside": "more than one concurrent writer thread, background-triggered compaction, more than 3 keys",
    },
    "C12": {
        "quick": [
            {"harness": "H_C12_q", "cases": list(range(12)), "scale": SC, "chunk": 1},
            {"harness": "H_C12_recovered", "scale": SC},
        ],
        "thorough": [
            {"harness": "H_C12_recovered", "scale": SC},
            {"harness": "H_C12_t", "cases": list(range(36)), "scale": SC, "chunk": 3},
            {"harness": "H_C12_t3", "cases": list(range(12)), "scale": SC, "chunk": 1, "maxsec": 3300},
        ],
        "covers": {"quick": ["C12.done", "C12.writer-ran-during-backup", "C12r.done"]},
        "bounds": {"quick": "3 keys, 2 prefix shapes (2-3 segments, last one active, with and without room left), 1 hash-layout shape (thorough: 3 prefixes x 2 layouts); thread T1 = Backup, thread T2 = 2 symbolic Put/Delete (rolling the log over during the backup); schedule symbolic at lock acquisitions and at the points where Backup holds no lock (before the size capture, before each segment copy, before the lock file is created); the copy is opened (recovery) and must equal the reference after a prefix of T2's operations between those acknowledged before the call and those started before the return",
                   "thorough": "3 writer operations"},
        "assumptions": COMMON_ASSUME + ["threads as C05; Backup's file copy is one atomic step per segment (io.Copy/CopyN executed from stdlib SSA, segments smaller than the 32 KiB copy buffer)"],
        "outside": "background compaction worker (excluded by maintenanceMu), OS-level copy fast paths, more than one writer",
    },
    "C07": {
        "quick": [
            {"harness": "H_C07_q", "cases": list(range(16)), "scale": SC, "chunk": 2},
            {"harness": "H_C07_c", "cases": list(range(6)), "scale": SC, "chunk": 1},
        ],
        "thorough": [
            {"harness": "H_C07_t22", "cases": list(range(24)), "scale": SC, "chunk": 1, "maxsec": 3300},
            {"harness": "H_C07_c", "cases": list(range(6)), "scale": SC, "chunk": 1},
            {"harness": "H_C07_t", "cases": list(range(16)), "scale": SC, "chunk": 1, "maxsec": 3300},
        ],
        "covers": {"quick": ["C07.done"]},
        "replay": False,
        "bounds": {"quick": "threads with 2 + 1 operations (kind from {Put, Delete, Get, Has} and key symbolic choices) over 2 keys, and a writer (Put/Delete) + a reader (Get/Has) with a concurrent Compact over 3 keys in one bucket chain; lockset monitor on; schedule symbolic at every lock acquisition; after join one disjunctive SMT obligation: some order of the operations that respects their call/return stamps explains every result under register-with-delete semantics",
                   "thorough": "2 x 2 operations with GetAppend and Count as well; 3 threads (2 + 2 + 1 operations)"},
        "assumptions": COMMON_ASSUME + ["context switches only at lock acquisitions / thread exit: sound only together with C10's lockset monitor (every shared access inside a critical section)", "schedule-dependent counterexamples are not replayed natively (no hook inside Put/Get to force the schedule)"],
        "outside": "Go memory-model effects below lock granularity, more than 3 threads, Backup/Sync/Items as concurrent observers (see C10, C11, C12), background worker",
    },
    "C10": {
        "quick": [
            {"harness": "H_C10_race", "cases": list(range(13)), "scale": SC, "chunk": 1, "replay": False},
            {"harness": "H_C10_closed", "cases": list(range(13)), "scale": SC, "chunk": 13},
            {"harness": "H_C10_worker", "cases": [0, 1, 2], "scale": SC, "chunk": 1, "replay": False},
        ],
        "covers": {"quick": ["C10.done", "C10.close-raced", "C10c.done", "C10w.done"]},
        "bounds": {"quick": "every ordered pair of public methods (Put, Delete, Get, GetAppend, Has, Count, Items/Next, Sync, Compact, FileSize, Metrics, Backup, Close) run by two threads on disjoint keys, schedule symbolic at lock acquisitions; lockset monitor (per heap cell allocated by pogreb code: a write and another access from different threads with no common lock is a violation); implicit no-panic / no-deadlock obligations; Close racing: the other operation fails or its effect is in the reopened database; every public method once on a closed database; background worker (context/ticker/select modelled, one tick of either kind at any scheduling point) alongside 3 writes and Close: same results, no goroutine of the database left after Close"},
        "assumptions": COMMON_ASSUME + ["the lockset discipline is a sufficient condition checked on every explored path, not the Go race detector's verdict; happens-before through channels/WaitGroup is not modelled"],
        "outside": "the Go runtime's own race detection and memory model, real SIGSEGV/SIGBUS on unmapped memory, more than one tick of the background worker per run (ticker modelled as: may fire at any scheduling point while the budget lasts), races inside a user-supplied FileSystem (fs.Mem's own map is not monitored), more than 2 threads",
    },
    "C13": {
        "quick": [
            {"harness": "H_C13_lock1", "pkg": "fs"},
            {"harness": "H_C13_lock2", "pkg": "fs"},
            {"harness": "H_C13_lock3", "pkg": "fs"},
            {"harness": "H_C13_open", "scale": SC},
        ],
        "covers": {"quick": ["C13.lock1.done", "C13.lock1.acquired-after-release", "C13.lock.done", "C13.lock.an-opener-acquired", "C13.lock.all-openers-rejected", "C13.open.done", "C13.clean-end", "C13.unclean-end", "C13.open-failed-with-io-error-in-recovery"]},
        "bounds": {"quick": "fs.OS lock file over the kernel model: 1 releasing owner (unlink, close) and 2 or 3 openers (stat, open, flock), every interleaving of their system calls (scheduling points between the calls); DB level on fs.Mem: 3 sessions each ending by clean Close, process death, or an Open failing with an injected I/O error at a symbolic write of the recovery; recovery iff the last session did not complete Close (observed through the index-file renames), competing Open fails with the locked error and leaves names and sizes unchanged"},
        "assumptions": COMMON_ASSUME + ["kernel model of stat/open(O_CREAT)/flock(LOCK_EX|LOCK_NB)/unlink/close (hand-written from the POSIX/Linux contract; counterexamples are replayed on the real kernel through the verif yield hooks)"],
        "outside": "NFS and other flock semantics, Windows/Plan 9 lock files, more than 3 openers",
    },
    "C17": {
        "quick": [
            {"harness": "H_C17_q", "cases": list(range(7)), "scale": SC + ",initialMmapSize=1024"},
        ],
        "thorough": [
            {"harness": "H_C17_t", "cases": list(range(7)), "scale": SC + ",initialMmapSize=1024"},
        ],
        "covers": {"quick": ["C17.done", "C17.mmap-remapped", "C17.unclean-restart"]},
        "bounds": {"quick": "the same symbolic program (2 prefix puts + 1 symbolic step from {put, delete, compact, close+open, unclean restart with a 7-byte symbolic torn tail}) on fs.Mem, fs.OS and fs.OSMMap inside one path; Get of every key and Count after every step, segment files byte for byte at the end; initialMmapSize scaled to 1 KiB so that files outgrow their mapping (remap path)",
                   "thorough": "3 symbolic steps"},
        "assumptions": COMMON_ASSUME + ["fs.OS / fs.OSMMap run over the kernel model (open/pread/pwrite/read/write/lseek/ftruncate/fstat/fsync/close/unlink/rename/readdir/flock, mmap as a coherent read-only view of the inode, munmap; access to an unmapped view is a fault obligation)", "not replayed natively: the scaled mapping size cannot be applied to the real kernel's behaviour in a meaningful way for the remap path"],
        "replay": False,
        "outside": "the real kernel (model), Windows/Plan 9 variants, initialMmapSize at 1 GiB (remap unreachable there by any feasible file)",
    },
}
