# Per-property job tables for ./check. Every job is one SSAX run:
#   harness (Go function in /verif/harness/<pkg>), cases (vCase values, run in
#   parallel), scale (constant rewrites applied to the current source), pkg.
COMMON_ASSUME = [
    "hash.Sum32WithSeed modelled as an uninterpreted function of (key bytes, seed) in DB-level harnesses (all hash layouts at once); the real function is encoded and compared with a reference in C18",
    "crc32.ChecksumIEEE: real on concrete bytes, uninterpreted function per length on symbolic bytes",
    "encoding/gob replaced by a 16-byte token model (wire format trusted); log/expvar calls are no-ops",
    "crypto/rand seed: one arbitrary symbolic 32-bit value per run",
    "fs.Mem executed from its own SSA; map iteration order taken sorted",
    "bounded: see coverage.bounds; nothing is claimed outside",
]
SC = "maxSegments=16,slotsPerBucket=2"

PROPS = {
    "C01": {
        "quick": [
            {"harness": "H_C01_seq_q", "cases": list(range(8)), "scale": SC},
        ],
        "thorough": [
            {"harness": "H_C01_seq_t", "cases": list(range(8)), "scale": SC},
        ],
        "covers": {"quick": ["C01.seq.done", "C01.level>0", "C01.overflow-bucket-created"]},
        "bounds": {"quick": "3 keys (8 bytes, symbolic content and hash), prefix of 3 puts + 2 symbolic steps from {put k, delete k, compact, sync}, 2-byte symbolic values, slotsPerBucket scaled to 2, 2 records per segment",
                   "thorough": "as quick with 4 symbolic steps"},
        "assumptions": COMMON_ASSUME,
        "outside": "longer histories, more than 3 keys, slotsPerBucket=31 (scaled to 2), level>3, other FileSystems (C17), real MurmurHash (C18)",
    },
}
