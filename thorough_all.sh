#!/bin/bash
# runs every thorough check once (used to confirm the registered thorough bounds run clean)
cd "$(dirname "$(readlink -f "$0")")"
[ -x bin/ssax ] || ./setup.sh
for p in ${@:-C18 C19 C16 C14 C13 C17 C08 C15 C01 C02 C11 C03 C09 C06 C04 C10 C12 C05 C07}; do
  /usr/bin/time -f "$p wall %es" ./check $p --tier thorough 2>&1 | grep -E "^VIOLATION|^  harness|INCONCL|ENCODING|KNOWN|tier=|wall" | cut -c1-400
done
echo THOROUGH-DONE
