#!/bin/bash
# seedcheck.sh <seed-name> <property> <src-dir-with patch.diff + demo test> [demo-subdir]
# Confirms in a scratch worktree: suite passes with the patch, demo fails with / passes without.
set -u
name=$1; prop=$2; src=$3; sub=${4:-.}
export GOFLAGS=-mod=mod GOPROXY=off GOSUMDB=off GOTOOLCHAIN=local
wt=/tmp/seedcheck-$name
git -C /repo worktree remove --force $wt 2>/dev/null
git -C /repo worktree add --detach $wt HEAD -q || exit 2
cd $wt
demo=$(ls $src/*_test.go | head -1)
res=ok
git apply $src/patch.diff || { echo "patch does not apply"; res=bad; }
go build ./... || { echo "does not build"; res=bad; }
go test -vet=off -count=1 ./... > /tmp/seedcheck-$name.suite.log 2>&1 || { echo "suite FAILS with patch"; tail -5 /tmp/seedcheck-$name.suite.log; res=bad; }
cp $demo $sub/
(cd $sub && go test ${SEED_TEST_FLAGS:-} -vet=off -count=1 -run "Seed|Demo" . > /tmp/seedcheck-$name.with.log 2>&1) && { echo "demo PASSES with patch (should fail)"; res=bad; }
git apply -R $src/patch.diff
(cd $sub && go test ${SEED_TEST_FLAGS:-} -vet=off -count=1 -run "Seed|Demo" . > /tmp/seedcheck-$name.without.log 2>&1) || { echo "demo FAILS without patch (should pass)"; tail -5 /tmp/seedcheck-$name.without.log; res=bad; }
cd /; git -C /repo worktree remove --force $wt
echo "seedcheck $name: $res"
if [ $res = ok ]; then
  mkdir -p /verif/seeded/$name
  cp $src/patch.diff $demo /verif/seeded/$name/
  [ -f $src/notes.md ] && cp $src/notes.md /verif/seeded/$name/
fi
