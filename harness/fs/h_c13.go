package fs

import "os"

// H_C13_lock: lock acquisition/release at system-call granularity.
// An owner that holds the lock releases it (its database is closed when Unlock
// starts) while nOpen openers try to acquire it; the schedule between the
// system calls (stat, open, flock | unlink, close) is symbolic. At every
// instant at most one opener may hold a LockFile; a failed attempt reports
// os.ErrExist ("locked").
func hC13lock(nOpen int, skip int) {
	vFlag("fsYield", 1)
	vFlag("fsYieldSkip", skip)
	if !vSymbolic() {
		verifYieldFn = func(p int) {
			if p != skip {
				vYield()
			}
		}
	}
	name := "c13lock"
	owner, existed, err := createLockFile(name, os.FileMode(0644))
	vAssert(err == nil && !existed, "C13.lock.first-acquire")
	if err != nil {
		return
	}
	holders := 0
	won := 0
	vGo(func() {
		vAssert(owner.Unlock() == nil, "C13.lock.unlock")
	})
	for i := 0; i < nOpen; i++ {
		vGo(func() {
			l, _, err := createLockFile(name, os.FileMode(0644))
			if err == nil {
				holders++
				won++
				vAssert(holders <= 1, "C13.lock.at-most-one-holder")
				_ = l
			} else {
				vAssert(err == os.ErrExist, "C13.lock.failed-attempt-reports-locked")
			}
		})
	}
	vJoin()
	if won > 0 {
		vCover("C13.lock.an-opener-acquired")
	}
	if won == 0 {
		vCover("C13.lock.all-openers-rejected")
	}
	vCover("C13.lock.done")
}

// H_C13_lock1: a single opener against the releasing owner. It can only win on a
// lock file it created itself (the owner holds the old one until it is unlinked
// and closed), so a successful acquisition must NOT report an existing lock
// file - otherwise a cleanly closed database would be recovered.
func H_C13_lock1() {
	vFlag("fsYield", 1)
	if !vSymbolic() {
		verifYieldFn = func(p int) { vYield() }
	}
	name := "c13lock1"
	owner, existed, err := createLockFile(name, os.FileMode(0644))
	vAssert(err == nil && !existed, "C13.lock1.first-acquire")
	if err != nil {
		return
	}
	vGo(func() {
		vAssert(owner.Unlock() == nil, "C13.lock1.unlock")
	})
	vGo(func() {
		l, ex, err := createLockFile(name, os.FileMode(0644))
		if err == nil {
			vAssert(!ex, "C13.lock1.clean-release-is-not-reported-as-unclean-shutdown")
			vCover("C13.lock1.acquired-after-release")
			_ = l
		} else {
			vAssert(err == os.ErrExist, "C13.lock1.failed-attempt-reports-locked")
		}
	})
	vJoin()
	vCover("C13.lock1.done")
}

func H_C13_lock2() { hC13lock(2, 0) }

// three openers: the point between flock and the identity check is not a scheduling point (state budget)
func H_C13_lock3() { hC13lock(3, 4) }
