package fs

// Harness-only helpers (overlay, never committed to /repo).

// VerifDropHandles simulates the death of the process that had files of the
// in-memory file system open: every handle (and lock) is released.
func VerifDropHandles() {
	m := Mem.(*memFS)
	for _, f := range m.files {
		f.refs = 0
	}
}

// VerifMemReset empties the in-memory file system.
func VerifMemReset() {
	m := Mem.(*memFS)
	m.files = map[string]*memFile{}
}

// VerifMmapInfo exposes the bookkeeping of a memory-mapped file (harness only).
func VerifMmapInfo(f File) (size, mmapSize int64, dataLen int) {
	if m, ok := f.(*osMMapFile); ok {
		return m.size, m.mmapSize, len(m.data)
	}
	return -1, -1, -1
}

// VerifOpenHandles counts the open handles of all files of the in-memory file
// system (the analogue of open descriptors / mappings).
func VerifOpenHandles() int {
	m := Mem.(*memFS)
	n := 0
	for _, f := range m.files {
		n += f.refs
	}
	return n
}
