package pogreb

import "github.com/akrylysov/pogreb/fs"

// One recorded operation of a concurrent history.
type linOp struct {
	kind     int // 0 put 1 delete 2 get 3 has 4 getappend 5 count
	k        int
	v        []byte // put value
	res      []byte // get / getappend result
	resNil   bool
	resBool  bool
	resCount uint32
	call     int
	ret      int
}

// linExplains: does executing ops in the order perm (which respects real-time
// order) on a register-with-delete map starting from init explain every result?
func linExplains(ops []*linOp, perm []int, init *refMap) bool {
	st := init.clone()
	ok := true
	for _, i := range perm {
		o := ops[i]
		switch o.kind {
		case 0:
			st.present[o.k] = true
			st.val[o.k] = o.v
		case 1:
			st.present[o.k] = false
			st.val[o.k] = nil
		case 2, 4:
			if st.present[o.k] {
				if o.resNil {
					return false
				}
				ok = vAnd(ok, vEqBytes(o.res, st.val[o.k]))
			} else if !o.resNil {
				return false
			}
		case 3:
			if o.resBool != st.present[o.k] {
				return false
			}
		case 5:
			if o.resCount != st.count() {
				return false
			}
		}
	}
	return ok
}

func linSearch(ops []*linOp, used []bool, perm []int, init *refMap) bool {
	if len(perm) == len(ops) {
		return linExplains(ops, perm, init)
	}
	ok := false
	for i := range ops {
		if used[i] {
			continue
		}
		// real-time order: i may come next only if no unused op returned before i was called
		legal := true
		for j := range ops {
			if j != i && !used[j] && ops[j].ret < ops[i].call {
				legal = false
			}
		}
		if !legal {
			continue
		}
		used[i] = true
		ok = vOr(ok, linSearch(ops, used, append(perm, i), init))
		used[i] = false
	}
	return ok
}

// hC07: nthreads threads with opsPer operations each over n keys (kind and key
// symbolic), optional Compact thread; schedule symbolic. After join some
// sequential order that respects real time must explain all results.
func hC07(nthreads, opsPer, lastOps, nkinds, vlen int, withCompact bool, layout int) {
	n := 2
	if withCompact {
		n = 3 // a chain with an overflow bucket (slotsPerBucket is scaled to 2) for compaction to walk
	}
	rec := 10 + 8 + vlen
	opts := smallOpts(fs.Mem, 2, rec)
	db, err := Open("c07", opts)
	vAssert(err == nil, "C07.open")
	if err != nil {
		return
	}
	r := newRef(n, 8)
	if withCompact {
		vPinLowBits(db, r, []uint32{1, 1, 1}) // one bucket chain
	} else {
		vConstrainHashes(db, r, layout, true)
	}
	for i := 0; i < n; i++ {
		applyOp(db, r, 0, i, vlen, "C07.prefix")
	}
	applyOp(db, r, 0, 0, vlen, "C07.prefix") // a dead record so that Compact has work
	init := r.clone()
	clock := 0
	var ops []*linOp
	counts := make([]int, nthreads)
	for t := 0; t < nthreads; t++ {
		counts[t] = opsPer
		if t == nthreads-1 {
			counts[t] = lastOps
		}
		for j := 0; j < counts[t]; j++ {
			var code int
			kinds, base := nkinds, 0
			if withCompact {
				// with a Compact thread: the first thread writes (Put/Delete), the last one reads (Get/Has)
				kinds = 2
				if t == nthreads-1 {
					base = 2
				}
			}
			if t == 0 && j == 0 {
				code = vCase() % (kinds * n)
			} else {
				code = vChoice("op", kinds*n)
			}
			o := &linOp{kind: base + code/n, k: code % n}
			if o.kind == 0 {
				o.v = vBytes("val", vlen)
			}
			ops = append(ops, o)
		}
	}
	run := func(o *linOp) {
		clock++
		o.call = clock
		key := r.keys[o.k]
		switch o.kind {
		case 0:
			vAssert(db.Put(key, o.v) == nil, "C07.put.err")
		case 1:
			vAssert(db.Delete(key) == nil, "C07.delete.err")
		case 2:
			g, err := db.Get(key)
			vAssert(err == nil, "C07.get.err")
			o.res, o.resNil = g, g == nil
		case 3:
			h, err := db.Has(key)
			vAssert(err == nil, "C07.has.err")
			o.resBool = h
		case 4:
			g, err := db.GetAppend(key, nil)
			vAssert(err == nil, "C07.getappend.err")
			o.res, o.resNil = g, g == nil
		case 5:
			o.resCount = db.Count()
		}
		clock++
		o.ret = clock
	}
	vFlag("lockset", 1) // the premise of switching only at lock acquisitions is checked on the same paths
	base := 0
	for t := 0; t < nthreads; t++ {
		mine := ops[base : base+counts[t]]
		base += counts[t]
		vGo(func() {
			for _, o := range mine {
				run(o)
			}
		})
	}
	if withCompact {
		vGo(func() {
			_, err := db.Compact()
			vAssert(err == nil, "C07.compact.err")
		})
	}
	vJoin()
	vFlag("lockset", 0)
	used := make([]bool, len(ops))
	vAssert(linSearch(ops, used, nil, init), "C07.linearizable")
	// the final state is the one the same order leaves behind: checked through a last sequential read of every key
	final := &linOp{}
	_ = final
	vCover("C07.done")
}

// kinds 0..3 = Put Delete Get Has (quick), 0..5 adds GetAppend and Count
// H_C07_q: case = first op (8) x layout (2); threads with 2 + 1 operations
func H_C07_q() { c := vCase(); hC07(2, 2, 1, 4, 2, false, (c/8)%2) }

// H_C07_c: 3 keys in one chain, case = first op (12): two threads with one operation each and a Compact thread
func H_C07_c() { hC07(2, 1, 1, 4, 2, true, 0) }

// thorough: case = first op (12) x layout (2)
func H_C07_t22() { c := vCase(); hC07(2, 2, 2, 6, 2, false, (c/12)%2) }

// three threads with one operation each (2+2+1 operations exceed 1M paths per case and 55 minutes: not registered)
func H_C07_t() { c := vCase(); hC07(3, 1, 1, 4, 2, false, (c/8)%2) }
