package pogreb

import "github.com/akrylysov/pogreb/fs"

func vKey(i int, n int) []byte {
	k := vBytes("key", n)
	if n > 0 {
		k[0] = byte(i)
	}
	if !vSymbolic() {
		vFixHash(k)
	}
	return k
}

func H_smoke() {
	opts := &Options{FileSystem: fs.Mem}
	db, err := Open("d", opts)
	vAssert(err == nil, "open")
	k0 := vKey(0, 4)
	k1 := vKey(1, 4)
	v0 := vBytes("v0", 2)
	vAssert(db.Put(k0, v0) == nil, "put")
	g, err := db.Get(k0)
	vAssert(err == nil, "get err")
	vAssert(vEqBytes(g, v0), "get val")
	g1, err := db.Get(k1)
	vAssert(err == nil, "get1 err")
	vAssert(g1 == nil, "get1 nil")
	vAssert(db.Count() == 1, "count")
	vAssert(db.Close() == nil, "close")
	db, err = Open("d", opts)
	vAssert(err == nil, "reopen")
	g, err = db.Get(k0)
	vAssert(err == nil, "get2 err")
	vAssert(vEqBytes(g, v0), "get2 val")
	vAssert(db.Count() == 1, "count2")
	vCover("smoke.done")
}
