package pogreb

import (
	"runtime"

	"github.com/akrylysov/pogreb/fs"
)

func vAllocNow() uint64 {
	if vSymbolic() {
		return 0
	}
	var m runtime.MemStats
	runtime.ReadMemStats(&m)
	return m.TotalAlloc
}

// hC19: header + p valid records + a fully symbolic 6-byte record header + T-6
// more symbolic bytes. Every allocation made while iterating must be bounded
// by budget = 2*(bytes present) + 64 KiB, for all 2^48 header values at once
// (the allocation size is a symbolic expression of the header bytes).
func hC19(p, T int) {
	opts := (&Options{FileSystem: fs.Mem}).copyWithDefaults("c19")
	fsys := opts.FileSystem
	body := vValidRecords(p)
	tail := vBytes("tail", T)
	name := segmentName(0, 1)
	vWriteFile(fsys, name, refHeader(), body, tail)
	present := headerSize + len(body) + T
	budget := 2*present + 64<<10
	dl := &datalog{opts: opts}
	seg, err := dl.openSegment(name, 0, 1)
	vAssert(err == nil, "C19.opensegment")
	if err != nil {
		return
	}
	vFlag("allocBudget", budget)
	before := vAllocNow()
	it := newRecoveryIterator([]*segment{seg})
	n := 0
	for ; n < 16; n++ {
		_, err := it.next()
		if err == ErrIterationDone {
			break
		}
		vAssert(err == nil, "C19.iter.err")
		if err != nil {
			return
		}
	}
	after := vAllocNow()
	vFlag("allocBudget", 1<<40)
	vAssert(after-before <= uint64(budget), "C19.alloc.total-bounded-by-bytes-present")
	vAssert(n < 16, "C19.iter.terminates")
	vAssert(vCounter("steps") < 400000, "C19.steps.bounded")
	vAssert(vFileSize(fsys, name) <= int64(present), "C19.size")
	vCover("C19.done")
}

func H_C19_alloc() { c := vCase(); hC19(c%2, 6+3*(c/2)) }
