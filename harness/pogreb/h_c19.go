package pogreb

import (
	"runtime"

	"github.com/akrylysov/pogreb/fs"
)

func vAllocNow() uint64 {
	if vSymbolic() {
		return 0
	}
	var m runtime.MemStats
	runtime.ReadMemStats(&m)
	return m.TotalAlloc
}

// hC19: header + p valid records + a fully symbolic 6-byte record header + T-6
// more symbolic bytes. Every allocation made while iterating must be bounded
// by budget = 2*(bytes present) + 64 KiB, for all 2^48 header values at once
// (the allocation size is a symbolic expression of the header bytes).
func hC19(p, T int) {
	opts := (&Options{FileSystem: fs.Mem}).copyWithDefaults("c19")
	fsys := opts.FileSystem
	body := vValidRecords(p)
	tail := vBytes("tail", T)
	name := segmentName(0, 1)
	vWriteFile(fsys, name, refHeader(), body, tail)
	present := headerSize + len(body) + T
	budget := 2*present + 64<<10
	dl := &datalog{opts: opts}
	seg, err := dl.openSegment(name, 0, 1)
	vAssert(err == nil, "C19.opensegment")
	if err != nil {
		return
	}
	vFlag("allocBudget", budget)
	before := vAllocNow()
	it := newRecoveryIterator([]*segment{seg})
	n := 0
	for ; n < 16; n++ {
		_, err := it.next()
		if err == ErrIterationDone {
			break
		}
		vAssert(err == nil, "C19.iter.err")
		if err != nil {
			return
		}
	}
	after := vAllocNow()
	vFlag("allocBudget", 1<<40)
	vAssert(after-before <= uint64(budget), "C19.alloc.total-bounded-by-bytes-present")
	vAssert(n < 16, "C19.iter.terminates")
	vAssert(vCounter("steps") < 400000, "C19.steps.bounded")
	vAssert(vFileSize(fsys, name) <= int64(present), "C19.size")
	vCover("C19.done")
}

func H_C19_alloc() { c := vCase(); hC19(c%2, 6+3*(c/2)) }

// H_C19_segs: three segments, each one valid record followed by a damaged record
// header (6 fully symbolic bytes + 3 more). Replay work must stay proportional to
// the bytes present: every valid record is handed out exactly once, in order, the
// iterator ends after at most one pass, and the allocation budget of H_C19_alloc
// holds for the whole pass.
func H_C19_segs() {
	opts := (&Options{FileSystem: fs.Mem}).copyWithDefaults("c19s")
	fsys := opts.FileSystem
	dl := &datalog{opts: opts}
	var segs []*segment
	present := 0
	for i := 0; i < 3; i++ {
		k := vBytes("rk", 2)
		v := vBytes("rv", 1)
		body := refEncode(k, v, false)
		tail := vBytes("tail", 9)
		// the damaged header claims more than the 3 bytes that follow it
		kl := uint32(tail[0]) | uint32(tail[1])<<8
		vl := (uint32(tail[2]) | uint32(tail[3])<<8 | uint32(tail[4])<<16 | uint32(tail[5])<<24) & 0x7fffffff
		vAssume(kl+vl > 3)
		name := segmentName(uint16(i), uint64(i+1))
		vWriteFile(fsys, name, refHeader(), body, tail)
		present += headerSize + len(body) + len(tail)
		seg, err := dl.openSegment(name, uint16(i), uint64(i+1))
		vAssert(err == nil, "C19s.opensegment")
		if err != nil {
			return
		}
		segs = append(segs, seg)
	}
	budget := 2*present + 64<<10
	vFlag("allocBudget", budget)
	it := newRecoveryIterator(segs)
	n := 0
	for ; n < 16; n++ {
		rec, err := it.next()
		if err == ErrIterationDone {
			break
		}
		vAssert(err == nil, "C19s.iter.err")
		if err != nil {
			return
		}
		vAssert(n < 3 && int(rec.segmentID) == n, "C19s.each-valid-record-is-replayed-once-in-order")
	}
	vFlag("allocBudget", 1<<40)
	vAssert(n == 3, "C19s.one-pass-over-the-segments")
	vAssert(vCounter("steps") < 400000, "C19s.steps.bounded")
	vCover("C19s.done")
}
