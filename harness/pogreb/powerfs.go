package pogreb

// powerFS: power-loss model of C06/C09 on top of fs.Mem. Directory operations
// (create, remove, rename) are durable and ordered as issued. File data and
// length are volatile until Sync is called on that file: at the failure each
// file keeps its content as of its last Sync plus an in-order prefix of the
// writes/truncations issued on it since, the last surviving write cut at a
// 512-byte-aligned offset.
//
// Bound on the choice of surviving prefixes (stated in evidence): either every
// file keeps everything, or every file loses everything unsynced, or exactly
// one file (symbolic choice) keeps a symbolic proper prefix while all others
// keep everything.

import (
	"io"
	"os"

	"github.com/akrylysov/pogreb/fs"
)

type pfOp struct {
	trunc bool
	off   int64
	data  []byte
	size  int64
}

type pfFile struct {
	name    string
	durable []byte
	pending []pfOp
}

type powerFS struct {
	inner    fs.FileSystem
	files    []*pfFile
	armed    bool // a failure may strike at mutating calls
	failed   bool
	segsOnly bool // only segment files are candidates for losing data
	// failSync: one Sync call (symbolic choice) fails with an I/O error without committing anything
	failSync   bool
	syncFailed bool
}

func (p *powerFS) lookup(name string) *pfFile {
	for _, f := range p.files {
		if f.name == name {
			return f
		}
	}
	return nil
}

func (p *powerFS) track(name string) *pfFile {
	if f := p.lookup(name); f != nil {
		return f
	}
	f := &pfFile{name: name}
	p.files = append(p.files, f)
	return f
}

func (p *powerFS) untrack(name string) {
	for i, f := range p.files {
		if f.name == name {
			p.files = append(p.files[:i:i], p.files[i+1:]...)
			return
		}
	}
}

func (p *powerFS) point() {
	if !p.armed || p.failed {
		return
	}
	if vChoice("powerfail", 2) == 1 {
		vCover("power.failure-inside-operation")
		p.failed = true
		panic(vCrashSignal{})
	}
}

func (p *powerFS) OpenFile(name string, flag int, perm os.FileMode) (fs.File, error) {
	_, serr := p.inner.Stat(name)
	exists := serr == nil
	if flag&os.O_TRUNC != 0 || (flag&os.O_CREATE != 0 && !exists) {
		p.point()
	}
	f, err := p.inner.OpenFile(name, flag, perm)
	if err != nil {
		return nil, err
	}
	pf := p.track(name)
	if exists && flag&os.O_TRUNC != 0 {
		pf.pending = append(pf.pending, pfOp{trunc: true, size: 0})
	}
	return &powerFile{File: f, p: p, name: name}, nil
}
func (p *powerFS) Stat(name string) (os.FileInfo, error) { return p.inner.Stat(name) }
func (p *powerFS) Remove(name string) error {
	p.point()
	err := p.inner.Remove(name)
	if err == nil {
		p.untrack(name)
	}
	return err
}
func (p *powerFS) Rename(o, n string) error {
	p.point()
	err := p.inner.Rename(o, n)
	if err == nil {
		p.untrack(n)
		if f := p.lookup(o); f != nil {
			f.name = n
		}
	}
	return err
}
func (p *powerFS) ReadDir(name string) ([]os.DirEntry, error) { return p.inner.ReadDir(name) }
func (p *powerFS) CreateLockFile(name string, perm os.FileMode) (fs.LockFile, bool, error) {
	p.point()
	l, ex, err := p.inner.CreateLockFile(name, perm)
	if err != nil {
		return nil, ex, err
	}
	return &powerLock{l: l, p: p}, ex, nil
}
func (p *powerFS) MkdirAll(path string, perm os.FileMode) error { return p.inner.MkdirAll(path, perm) }

type powerLock struct {
	l fs.LockFile
	p *powerFS
}

func (l *powerLock) Unlock() error {
	l.p.point()
	return l.l.Unlock()
}

type powerFile struct {
	fs.File
	p    *powerFS
	name string
	pos  int64
}

func (f *powerFile) pf() *pfFile { return f.p.track(f.name) }

func (f *powerFile) WriteAt(b []byte, off int64) (int, error) {
	f.p.point()
	n, err := f.File.WriteAt(b, off)
	if err == nil {
		f.pf().pending = append(f.pf().pending, pfOp{off: off, data: append([]byte{}, b...)})
	}
	return n, err
}

func (f *powerFile) Write(b []byte) (int, error) {
	// gob payload: not a failure point of its own (see crashFile.Write)
	n, err := f.File.Write(b)
	if err == nil {
		f.pf().pending = append(f.pf().pending, pfOp{off: f.pos, data: append([]byte{}, b...)})
		f.pos += int64(n)
	}
	return n, err
}

func (f *powerFile) Read(b []byte) (int, error) {
	n, err := f.File.Read(b)
	f.pos += int64(n)
	return n, err
}

func (f *powerFile) Seek(offset int64, whence int) (int64, error) {
	o, err := f.File.Seek(offset, whence)
	if err == nil {
		f.pos = o
	}
	return o, err
}

func (f *powerFile) Truncate(size int64) error {
	f.p.point()
	err := f.File.Truncate(size)
	if err == nil {
		f.pf().pending = append(f.pf().pending, pfOp{trunc: true, size: size})
	}
	return err
}

func (f *powerFile) Sync() error {
	if f.p.failSync && !f.p.syncFailed && vChoice("syncerr", 2) == 1 {
		f.p.syncFailed = true
		vCover("power.sync-call-failed")
		return errInjected
	}
	err := f.File.Sync()
	if err != nil {
		return err
	}
	st, err := f.File.Stat()
	if err != nil {
		return err
	}
	pf := f.pf()
	pf.durable = nil
	if st.Size() > 0 {
		cur, err := f.File.Slice(0, st.Size())
		if err != nil {
			return err
		}
		pf.durable = append([]byte{}, cur...)
	}
	pf.pending = nil
	return nil
}

func pfApply(img []byte, op pfOp, cut int) []byte {
	if op.trunc {
		if int(op.size) <= len(img) {
			return img[:op.size]
		}
		return append(img, make([]byte, int(op.size)-len(img))...)
	}
	d := op.data
	if cut >= 0 {
		d = d[:cut]
	}
	end := int(op.off) + len(d)
	if end > len(img) {
		img = append(img, make([]byte, end-len(img))...)
	}
	copy(img[op.off:], d)
	return img
}

// survive computes the surviving image of one file: durable content plus the
// first keep pending operations, then operation keep cut at a symbolic aligned offset.
func (p *powerFS) surviving(f *pfFile, keep int, partial bool) []byte {
	img := append([]byte{}, f.durable...)
	for i := 0; i < keep && i < len(f.pending); i++ {
		img = pfApply(img, f.pending[i], -1)
	}
	if partial && keep < len(f.pending) && !f.pending[keep].trunc {
		op := f.pending[keep]
		first := (op.off/512 + 1) * 512
		n := 0
		for t := first; t < op.off+int64(len(op.data)); t += 512 {
			n++
		}
		if n > 0 {
			k := vChoice("power.cut", n+1)
			if k > 0 {
				img = pfApply(img, op, int(first+int64(k-1)*512-op.off))
				vCover("power.torn-write-survives")
			}
		}
	}
	return img
}

func (p *powerFS) rewrite(name string, img []byte) {
	f, err := p.inner.OpenFile(name, os.O_RDWR|os.O_TRUNC, os.FileMode(0640))
	vAssert(err == nil, "powerfs.rewrite.open")
	if err != nil {
		return
	}
	if len(img) > 0 {
		_, err = f.WriteAt(img, 0)
		vAssert(err == nil, "powerfs.rewrite.write")
	}
	_ = f.Close()
}

func (p *powerFS) candidate(f *pfFile) bool {
	if len(f.pending) == 0 {
		return false
	}
	if p.segsOnly {
		n := f.name
		return len(n) > 4 && n[len(n)-4:] == segmentExt
	}
	return true
}

// powerFail applies the power-loss model to the file system image.
func (p *powerFS) powerFail() {
	p.failed = true
	var cands []*pfFile
	for _, f := range p.files {
		if p.candidate(f) {
			cands = append(cands, f)
		}
	}
	mode := vChoice("power.mode", 2+len(cands))
	switch {
	case mode == 0:
		vCover("power.nothing-lost")
	case mode == 1:
		for _, f := range cands {
			p.rewrite(f.name, p.surviving(f, 0, false))
		}
		if len(cands) > 0 {
			vCover("power.all-unsynced-lost")
		}
	default:
		f := cands[mode-2]
		keep := vChoice("power.keep", len(f.pending))
		p.rewrite(f.name, p.surviving(f, keep, true))
		vCover("power.one-file-loses-suffix")
	}
	fs.VerifDropHandles()
}

var _ = io.EOF
