package pogreb

import (
	"time"

	"github.com/akrylysov/pogreb/fs"
)

// durTrack: what a power failure may legitimately leave for each key.
type durTrack struct {
	n        int
	dur      *refMap // state at the last completed durability point
	later    [vMaxKeys][][]byte
	delLater [vMaxKeys]bool
}

func (d *durTrack) checkpoint(r *refMap) {
	d.dur = r.clone()
	for i := 0; i < d.n; i++ {
		d.later[i] = nil
		d.delLater[i] = false
	}
}

func (d *durTrack) note(op, k int, v []byte) {
	switch op {
	case 0:
		d.later[k] = append(d.later[k], v)
	case 1:
		d.delLater[k] = true
	}
}

// acceptable: every key holds its durable value or a value written (or a
// deletion made) after the last durability point.
func (d *durTrack) acceptable(db *DB, tag string) {
	for i := 0; i < d.n; i++ {
		got, err := db.Get(d.dur.keys[i])
		vAssert(err == nil, tag+".get.err")
		if got == nil {
			vAssert(!d.dur.present[i] || d.delLater[i], tag+".synced-key-lost")
			continue
		}
		ok := false
		if d.dur.present[i] {
			ok = vEqBytes(got, d.dur.val[i])
		}
		for _, lv := range d.later[i] {
			ok = vOr(ok, vEqBytes(got, lv))
		}
		vAssert(ok, tag+".value-is-durable-or-later")
	}
}

// hC06: history with durability points (explicit Sync, or every write in
// sync-after-write mode), power failure at a symbolic instant, recovery.
func hC06(n, prefix, L, vlen, syncMode int, midOp bool) {
	hC06x(n, prefix, L, vlen, syncMode, midOp, false)
}

// afterRecovery: the session under test itself starts with a crash recovery
func hC06x(n, prefix, L, vlen, syncMode int, midOp bool, afterRecovery bool) {
	pfs := &powerFS{inner: fs.Mem, segsOnly: true}
	rec := 10 + 8 + vlen
	mk := func(fsys fs.FileSystem) *Options {
		o := smallOpts(fsys, 2, rec)
		if syncMode == 1 {
			o.BackgroundSyncInterval = time.Duration(-1)
		}
		return o
	}
	dir := "c06"
	db, err := Open(dir, mk(pfs))
	vAssert(err == nil, "C06.open")
	if err != nil {
		return
	}
	r := newRef(n, 8)
	d := &durTrack{n: n}
	d.checkpoint(r)
	for i := 0; i < prefix; i++ {
		v := vBytes("val", vlen)
		refApply(r, 0, i%n, v)
		d.note(0, i%n, v)
		dbApply(&db, dir, nil, r, 0, i%n, v, "C06.prefix")
		if syncMode == 1 {
			d.checkpoint(r)
		}
	}
	if afterRecovery {
		// the process dies (nothing is lost: no power failure yet) and the next session recovers
		fs.VerifDropHandles()
		db, err = Open(dir, mk(pfs))
		vAssert(err == nil, "C06.recovering-open")
		if err != nil {
			return
		}
		vCover("C06.session-started-with-recovery")
	}
	pfs.armed = midOp
	failed := false
	nops := 2*n + 2
	for step := 0; step < L && !failed; step++ {
		var code int
		if step == 0 {
			code = vCase() % nops
		} else {
			code = vChoice("op", nops)
		}
		op, k := decodeOp(code, n)
		var v []byte
		if op == 0 {
			v = vBytes("val", vlen)
		}
		refApply(r, op, k, v)
		d.note(op, k, v)
		failed = vRunCrashable(func() { dbApply(&db, dir, nil, r, op, k, v, "C06.step") })
		if failed {
			break
		}
		if op == 3 || (syncMode == 1 && op <= 1) {
			d.checkpoint(r)
			vCover("C06.durability-point")
		}
		if db.datalog.curSeg != nil && db.datalog.curSeg.id > 0 {
			vCover("C06.rolled-over")
		}
		if vChoice("failnow", 2) == 1 {
			break
		}
	}
	pfs.armed = false
	pfs.powerFail()
	db2, err := Open(dir, mk(fs.Mem))
	vAssert(err == nil, "C06.open-after-power-loss-succeeds")
	if err != nil {
		return
	}
	d.acceptable(db2, "C06.after")
	checkSelfConsistent(db2, r, "C06.after")
	vCover("C06.done")
}

// hC06compact: synced prefix, L unsynced symbolic writes, then Compact with a
// power failure at every mutating file-system call inside it (or right after).
func hC06compact(n, L, vlen int) {
	pfs := &powerFS{inner: fs.Mem, segsOnly: true}
	rec := 10 + 8 + vlen
	dir := "c06c"
	db, err := Open(dir, smallOpts(pfs, 2, rec))
	vAssert(err == nil, "C06c.open")
	if err != nil {
		return
	}
	r := newRef(n, 8)
	d := &durTrack{n: n}
	d.checkpoint(r)
	for i := 0; i < n; i++ {
		applyOp(db, r, 0, i, vlen, "C06c.prefix")
	}
	vAssert(db.Sync() == nil, "C06c.sync")
	d.checkpoint(r)
	for step := 0; step < L; step++ {
		var code int
		if step == 0 {
			code = vCase() % (2 * n)
		} else {
			code = vChoice("op", 2*n)
		}
		op, k := decodeOp(code, n)
		var v []byte
		if op == 0 {
			v = vBytes("val", vlen)
		}
		refApply(r, op, k, v)
		d.note(op, k, v)
		dbApply(&db, dir, nil, r, op, k, v, "C06c.step")
	}
	pfs.armed = true
	failed := vRunCrashable(func() {
		cr, err := db.Compact()
		vAssert(err == nil, "C06c.compact.err")
		if cr.CompactedSegments > 1 {
			vCover("C06c.compacted-several-segments")
		}
	})
	if failed {
		vCover("C06c.power-failure-inside-compaction")
	}
	pfs.armed = false
	pfs.powerFail()
	db2, err := Open(dir, smallOpts(fs.Mem, 2, rec))
	vAssert(err == nil, "C06c.open-after-power-loss-succeeds")
	if err != nil {
		return
	}
	d.acceptable(db2, "C06c.after")
	checkSelfConsistent(db2, r, "C06c.after")
	vCover("C06c.done")
}

func H_C06_compact() { hC06compact(2, 2, 2) }

func H_C06_q()     { hC06(2, 2, 3, 2, 0, false) }
func H_C06_sw()    { hC06(2, 1, 2, 2, 1, false) }
func H_C06_rec()   { hC06x(2, 2, 2, 2, 0, false, true) }
func H_C06_t()     { hC06(2, 2, 4, 2, 0, false) }
func H_C06_mid()   { hC06(2, 2, 2, 2, 0, true) }
func H_C06_swmid() { hC06(2, 1, 2, 2, 1, true) }

// hC09: history, Close returns nil, power failure (right after Close, or at a
// symbolic file-system call of the next Open), Open must succeed with exactly
// the closed contents.
func hC09(n, prefix, L, vlen, syncMode int, midOpen bool) {
	pfs := &powerFS{inner: fs.Mem}
	rec := 10 + 8 + vlen
	mk := func(fsys fs.FileSystem) *Options {
		o := smallOpts(fsys, 2, rec)
		if syncMode == 1 {
			o.BackgroundSyncInterval = time.Duration(-1)
		}
		return o
	}
	dir := "c09"
	db, err := Open(dir, mk(pfs))
	vAssert(err == nil, "C09.open")
	if err != nil {
		return
	}
	r := newRef(n, 8)
	for i := 0; i < prefix; i++ {
		applyOp(db, r, 0, i%n, vlen, "C09.prefix")
	}
	nops := 2*n + 3
	for step := 0; step < L; step++ {
		var code int
		if step == 0 {
			code = vCase() % nops
		} else {
			code = vChoice("op", nops)
		}
		op, k := decodeOp5(code, n)
		var v []byte
		if op == 0 {
			v = vBytes("val", vlen)
		}
		refApply(r, op, k, v)
		dbApply(&db, dir, mk(pfs), r, op, k, v, "C09.step")
		if db == nil {
			return
		}
	}
	vAssert(db.Close() == nil, "C09.close")
	if midOpen {
		pfs.armed = true
		var dbx *DB
		failed := vRunCrashable(func() {
			var err error
			dbx, err = Open(dir, mk(pfs))
			vAssert(err == nil, "C09.next-open")
		})
		if !failed {
			// the session opened cleanly and dies without doing anything
			vCover("C09.failure-after-next-open")
		} else {
			vCover("C09.failure-inside-next-open")
		}
		_ = dbx
		pfs.armed = false
	}
	pfs.powerFail()
	db2, err := Open(dir, mk(fs.Mem))
	vAssert(err == nil, "C09.open-after-power-loss-succeeds")
	if err != nil {
		return
	}
	checkReads(db2, r, "C09.after")
	checkItems(db2, r, "C09.after")
	vCover("C09.done")
}

// hC09s2: the closing session is the SECOND one on the directory (index and
// metadata files already exist when it starts): prefix, Close, Open, L steps,
// Close, power failure.
func hC09s2(n, L, vlen int) {
	pfs := &powerFS{inner: fs.Mem}
	rec := 10 + 8 + vlen
	dir := "c09b"
	mk := func() *Options { return smallOpts(pfs, 2, rec) }
	db, err := Open(dir, mk())
	vAssert(err == nil, "C09b.open")
	if err != nil {
		return
	}
	r := newRef(n, 8)
	for i := 0; i < n; i++ {
		applyOp(db, r, 0, i, vlen, "C09b.prefix")
	}
	vAssert(db.Close() == nil, "C09b.close1")
	db, err = Open(dir, mk())
	vAssert(err == nil, "C09b.open2")
	if err != nil {
		return
	}
	vAgeLog(db) // the log of the closing session is an old one: sequence ids beyond 16 bits
	for step := 0; step < L; step++ {
		var code int
		if step == 0 {
			code = vCase() % (2*n + 1)
		} else {
			code = vChoice("op", 2*n+1)
		}
		op, k := decodeOp(code, n)
		applyOp(db, r, op, k, vlen, "C09b.step")
	}
	vAssert(db.Close() == nil, "C09b.close2")
	pfs.powerFail()
	db2, err := Open(dir, smallOpts(fs.Mem, 2, rec))
	vAssert(err == nil, "C09b.open-after-power-loss-succeeds")
	if err != nil {
		return
	}
	checkReads(db2, r, "C09b.after")
	checkItems(db2, r, "C09b.after")
	vCover("C09b.done")
}

func H_C09_s2() { hC09s2(2, 1, 2) }

// hC09race: Close lands at a symbolic point of a running Compact (which has
// sealed the segments it picked, among them the current one with unsynced
// records). If Close returns nil, a power failure afterwards must not lose anything.
func hC09race(syncMode int) {
	n := 2
	vlen := 2
	pfs := &powerFS{inner: fs.Mem}
	rec := 10 + 8 + vlen
	mk := func(fsys fs.FileSystem) *Options {
		o := smallOpts(fsys, 2, rec)
		if syncMode == 1 {
			o.BackgroundSyncInterval = time.Duration(-1)
		}
		return o
	}
	dir := "c09r"
	db, err := Open(dir, mk(pfs))
	vAssert(err == nil, "C09r.open")
	if err != nil {
		return
	}
	r := newRef(n, 8)
	// seg0 [k0 k1], current seg1 [k0' k0'']: both hold dead records, both get picked
	for _, k := range []int{0, 1, 0, 0} {
		applyOp(db, r, 0, k, vlen, "C09r.prefix")
	}
	var cerr error
	closed := false
	vConcurrentWithMaintenance(func() {
		_, _ = db.Compact() // may fail once the files are closed: that is fine
	}, []vOp{{op: 4}}, func(i int) {
		cerr = db.Close()
		closed = true
	}, nil)
	if !closed || cerr != nil {
		return // Close did not complete successfully: the property makes no promise
	}
	vCover("C09r.close-succeeded-while-compaction-in-flight")
	pfs.powerFail()
	db2, err := Open(dir, mk(fs.Mem))
	vAssert(err == nil, "C09r.open-after-power-loss-succeeds")
	if err != nil {
		return
	}
	checkReads(db2, r, "C09r.after")
	checkItems(db2, r, "C09r.after")
	vCover("C09r.done")
}

func H_C09_race() { hC09race(0) }

// H_C09_syncerr: one Sync call issued by Close fails with an I/O error (symbolic
// choice which). Either Close reports an error (then nothing is promised), or it
// returns nil - and then the power failure afterwards must not lose anything.
func H_C09_syncerr() {
	n := 2
	vlen := 2
	pfs := &powerFS{inner: fs.Mem}
	rec := 10 + 8 + vlen
	dir := "c09e"
	db, err := Open(dir, smallOpts(pfs, 2, rec))
	vAssert(err == nil, "C09e.open")
	if err != nil {
		return
	}
	r := newRef(n, 8)
	for _, k := range []int{0, 1, 0} {
		applyOp(db, r, 0, k, vlen, "C09e.prefix")
	}
	code := vCase() % (2 * n)
	op, k := decodeOp(code, n)
	applyOp(db, r, op, k, vlen, "C09e.step")
	pfs.failSync = true
	cerr := db.Close()
	pfs.failSync = false
	if cerr != nil {
		vCover("C09e.close-reported-the-sync-error")
		return
	}
	if pfs.syncFailed {
		vCover("C09e.close-returned-nil-although-a-sync-failed")
	}
	pfs.powerFail()
	db2, err := Open(dir, smallOpts(fs.Mem, 2, rec))
	vAssert(err == nil, "C09e.open-after-power-loss-succeeds")
	if err != nil {
		return
	}
	checkReads(db2, r, "C09e.after")
	checkItems(db2, r, "C09e.after")
	vCover("C09e.done")
}

func H_C09_q()   { hC09(2, 2, 1, 2, 0, false) }
func H_C09_sw()  { hC09(2, 2, 1, 2, 1, false) }
func H_C09_mid() { hC09(2, 2, 1, 2, 0, true) }
func H_C09_t()   { hC09(2, 2, 2, 2, 0, false) }

// H_C06_csync: an explicit Sync lands at every lock-free point of a running
// Compact (two threads, all schedules); from the moment Sync has returned, power
// may fail immediately or at any later mutating file-system call of the
// compaction. Everything written before that Sync - including records sitting
// in a segment that compaction has already sealed and is busy copying - must
// survive. case: prefix shape of C05 (which segment compaction picks, whether it
// is the current one).
func H_C06_csync() {
	n := 3
	vlen := 2
	rec := 10 + 8 + vlen
	prefixIdx := vCase() % 4
	pfs := &powerFS{inner: fs.Mem, segsOnly: true}
	opts := smallOpts(pfs, 2, rec)
	opts.maxSegmentSize += uint32(c05extra[prefixIdx])
	dir := "c06s"
	db, err := Open(dir, opts)
	vAssert(err == nil, "C06s.open")
	if err != nil {
		return
	}
	r := newRef(n, 8)
	vConstrainHashes(db, r, 2, true)
	d := &durTrack{n: n}
	d.checkpoint(r)
	for _, p := range c05prefixes[prefixIdx] {
		var v []byte
		if p[0] == 0 {
			v = vBytes("val", vlen)
		}
		refApply(r, p[0], p[1], v)
		d.note(p[0], p[1], v)
		dbApply(&db, dir, nil, r, p[0], p[1], v, "C06s.prefix")
	}
	ops := []vOp{{op: 3}}
	crashed := vRunCrashable(func() {
		vConcurrentWithMaintenance(func() {
			died := vRunCrashable(func() {
				_, err := db.Compact()
				vAssert(err == nil, "C06s.compact.err")
			})
			if died {
				panic(vCrashSignal{})
			}
		}, ops, func(i int) {
			vAssert(db.Sync() == nil, "C06s.sync.err")
		}, func(i int) {
			// Sync has returned: a durability point for everything written so far
			d.checkpoint(r)
			vCover("C06s.sync-returned")
			pfs.armed = true
			if vChoice("failnow", 2) == 1 {
				pfs.failed = true
				panic(vCrashSignal{})
			}
		})
	})
	if crashed {
		vCover("C06s.power-failure-while-compaction-runs")
	}
	pfs.armed = false
	pfs.powerFail()
	opts2 := smallOpts(fs.Mem, 2, rec)
	opts2.maxSegmentSize = opts.maxSegmentSize
	db2, err := Open(dir, opts2)
	vAssert(err == nil, "C06s.open-after-power-loss-succeeds")
	if err != nil {
		return
	}
	d.acceptable(db2, "C06s.after")
	checkSelfConsistent(db2, r, "C06s.after")
	vCover("C06s.done")
}
