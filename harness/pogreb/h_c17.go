package pogreb

import (
	"os"

	"github.com/akrylysov/pogreb/fs"
)

func vReadWhole(fsys fs.FileSystem, name string) []byte {
	st, err := fsys.Stat(name)
	if err != nil {
		return nil
	}
	f, err := fsys.OpenFile(name, os.O_RDONLY, os.FileMode(0640))
	if err != nil {
		return nil
	}
	buf := make([]byte, st.Size())
	if len(buf) > 0 {
		_, err = f.ReadAt(buf, 0)
		vAssert(err == nil, "harness.readwhole")
	}
	_ = f.Close()
	return buf
}

// hC17: the same symbolic program on fs.Mem, fs.OS and fs.OSMMap (the two OS
// file systems run over the kernel model; initialMmapSize scaled so that the
// remap-on-growth path is taken): every API result and, at the end, the bytes
// of every segment file must be identical.
func hC17(L, vlen int) {
	n := 2
	rec := 10 + 8 + vlen
	fss := []fs.FileSystem{fs.Mem, fs.OS, fs.OSMMap}
	dirs := []string{"c17mem", "c17os", "c17mmap"}
	var dbs [3]*DB
	for i := range fss {
		db, err := Open(dirs[i], smallOpts(fss[i], 2, rec))
		vAssert(err == nil, "C17.open")
		if err != nil {
			return
		}
		dbs[i] = db
	}
	// one shared seed so that the three indexes agree: the first DB's seed is copied (all are empty)
	for i := 1; i < 3; i++ {
		dbs[i].hashSeed = dbs[0].hashSeed
	}
	r := newRef(n, 8)
	nops := 2*n + 3 // put k, delete k, compact, close+open, unclean restart with torn tail
	for step := 0; step < 2+L; step++ {
		var code int
		switch {
		case step < 2:
			code = step // prefix: put k0, put k1
		case step == 2:
			code = vCase() % nops
		default:
			code = vChoice("op", nops)
		}
		var v []byte
		var tail []byte
		if code < n {
			v = vBytes("val", vlen)
		}
		if code == 2*n+2 {
			tail = vBytes("tail", 7)
		}
		var res [3][]byte
		for i := range fss {
			db := dbs[i]
			switch {
			case code < n:
				vAssert(db.Put(r.keys[code], v) == nil, "C17.put")
			case code < 2*n:
				vAssert(db.Delete(r.keys[code-n]) == nil, "C17.delete")
			case code == 2*n:
				_, err := db.Compact()
				vAssert(err == nil, "C17.compact")
			case code == 2*n+1:
				vAssert(db.Close() == nil, "C17.close")
				ndb, err := Open(dirs[i], smallOpts(fss[i], 2, rec))
				vAssert(err == nil, "C17.reopen")
				if err != nil {
					return
				}
				dbs[i] = ndb
			default:
				// unclean shutdown: garbage after the last record of the current segment, lock left behind
				seg := db.datalog.curSeg
				if seg != nil && db.datalog.segments[seg.id] == seg {
					_, err := seg.WriteAt(tail, seg.size)
					vAssert(err == nil, "C17.tear")
				}
				if i == 0 {
					fs.VerifDropHandles()
				} else if i == 2 {
					vKernelDropHandles()
				}
				if i == 1 {
					continue // fs.OS and fs.OSMMap share the kernel: drop handles once, after both were torn
				}
			}
		}
		if code == 2*n+2 {
			vCover("C17.unclean-restart")
			for i := range fss {
				ndb, err := Open(dirs[i], smallOpts(fss[i], 2, rec))
				vAssert(err == nil, "C17.recovering-open")
				if err != nil {
					return
				}
				dbs[i] = ndb
			}
		}
		if code < n {
			r.present[code], r.val[code] = true, v
		} else if code < 2*n {
			r.present[code-n], r.val[code-n] = false, nil
		}
		// observable results agree (and agree with the reference)
		for k := 0; k < n; k++ {
			for i := range fss {
				g, err := dbs[i].Get(r.keys[k])
				vAssert(err == nil, "C17.get.err")
				res[i] = g
			}
			vAssert((res[0] == nil) == (res[1] == nil) && (res[0] == nil) == (res[2] == nil), "C17.get.presence-agrees")
			if res[0] != nil && res[1] != nil && res[2] != nil {
				vAssert(vEqBytes(res[0], res[1]) && vEqBytes(res[0], res[2]), "C17.get.value-agrees")
			}
		}
		vAssert(dbs[0].Count() == dbs[1].Count() && dbs[0].Count() == dbs[2].Count(), "C17.count-agrees")
		vAssert(dbs[0].Count() == r.count(), "C17.count")
	}
	// a scan that is interrupted by an overwrite of everything and a compaction
	// (the segments the queued items were read from disappear) behaves the same everywhere
	var first [3][]byte
	var rest [3]int
	ov := vBytes("ov", vlen)
	for i := range fss {
		it := dbs[i].Items()
		_, v1, err := it.Next()
		vAssert(err == nil || err == ErrIterationDone, "C17.scan.first")
		first[i] = v1
		for k := 0; k < n; k++ {
			vAssert(dbs[i].Put(r.keys[k], ov) == nil, "C17.scan.put")
		}
		_, err = dbs[i].Compact()
		vAssert(err == nil, "C17.scan.compact")
		for j := 0; j < 2*vMaxKeys; j++ {
			_, _, err := it.Next()
			if err != nil {
				vAssert(err == ErrIterationDone, "C17.scan.next")
				break
			}
			rest[i]++
		}
	}
	for k := 0; k < n; k++ {
		r.present[k], r.val[k] = true, ov
	}
	vAssert(rest[0] == rest[1] && rest[0] == rest[2], "C17.scan.same-number-of-items")
	vAssert((first[0] == nil) == (first[1] == nil) && (first[0] == nil) == (first[2] == nil), "C17.scan.first-agrees")
	if first[0] != nil && first[1] != nil && first[2] != nil {
		vAssert(vEqBytes(first[0], first[1]) && vEqBytes(first[0], first[2]), "C17.scan.first-value-agrees")
	}
	// segment files are byte-identical
	for i := range fss {
		vAssert(dbs[i].Sync() == nil, "C17.sync")
	}
	names := vDirNames(dbs[0].opts.FileSystem)
	nseg := 0
	for _, nm := range names {
		if !vHasSuffix(nm, segmentExt) {
			continue
		}
		nseg++
		a := vReadWhole(dbs[0].opts.FileSystem, nm)
		b := vReadWhole(dbs[1].opts.FileSystem, nm)
		c := vReadWhole(dbs[2].opts.FileSystem, nm)
		vAssert(len(a) == len(b) && len(a) == len(c), "C17.segment-length-agrees")
		if len(a) == len(b) && len(a) == len(c) {
			vAssert(vEqBytes(a, b) && vEqBytes(a, c), "C17.segment-bytes-agree")
		}
	}
	s1, _ := vCountSegFiles(dbs[1].opts.FileSystem)
	s2, _ := vCountSegFiles(dbs[2].opts.FileSystem)
	vAssert(nseg == s1 && nseg == s2, "C17.same-segment-files")
	if dbs[2].index.main.size > 1024 {
		vCover("C17.mmap-remapped")
	}
	vCover("C17.done")
}

func H_C17_q() { hC17(1, 2) }
func H_C17_t() { hC17(3, 2) }
