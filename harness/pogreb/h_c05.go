package pogreb

import "github.com/akrylysov/pogreb/fs"

type vOp struct {
	op, k int
	v     []byte
}

var c05prefixes = [][][2]int{
	{{0, 0}, {0, 1}, {0, 0}, {0, 2}},         // seg0 [k0 k1] seg1 [k0' k2]: dead record, no delete marker
	{{0, 0}, {0, 1}, {1, 0}, {0, 2}},         // seg1 holds a delete marker: older segments are compacted too
	{{0, 0}, {0, 1}, {0, 2}, {0, 0}, {1, 1}}, // three segments, overwrite and delete marker in the newest ones
	{{0, 0}, {0, 1}, {0, 2}, {0, 2}},         // seg0 [k0 k1] all live (not picked), current seg1 [k2 k2'] picked, with room for one delete marker
}

// extra segment capacity (bytes) per prefix: prefix 3 leaves room for a delete marker (18 bytes) but not for a put
var c05extra = []int{0, 0, 0, 18}

// vConcurrentWithMaintenance runs maint (Compact or Backup) while the writer
// operations ops are placed at symbolic points where maint holds no database
// lock. In the engine these are two threads and the schedule is symbolic; in a
// native replay the recorded positions are re-enacted from the verifYield hooks.
// after(i) runs atomically with the completion of operation i.
func vConcurrentWithMaintenance(maint func(), ops []vOp, apply func(i int), after func(i int)) {
	yieldCount := 0
	maintDone := false
	if vSymbolic() {
		verifYieldFn = func(point int) {
			yieldCount++
			if point >= 10 {
				// Backup's lock-free points are scheduling points of their own
				// (compaction's are each followed by a lock acquisition, which already is one)
				vYield()
			}
		}
		vGo(func() {
			maint()
			maintDone = true
		})
		vGo(func() {
			for i := range ops {
				apply(i)
				pos := 2 * yieldCount
				if maintDone {
					pos++
				}
				vRecord("pos", pos)
				if after != nil {
					after(i)
				}
			}
		})
		vJoin()
		verifYieldFn = nil
		return
	}
	next := 0
	run := func(limit int) {
		for next < len(ops) {
			p := vRecorded("pos", next)
			if p < 0 || p > limit {
				return
			}
			apply(next)
			if after != nil {
				after(next)
			}
			next++
		}
	}
	verifYieldFn = func(int) {
		yieldCount++
		run(2 * yieldCount)
	}
	run(0)
	maint()
	verifYieldFn = nil
	run(1 << 30)
}

// vConstrainHashes restricts the (symbolic) hash layout of the keys to one of
// three shapes so that schedule exploration is not multiplied by every hash
// layout (C01 explores layouts exhaustively for sequential histories):
// 0: all keys in one bucket chain; 1: k0,k1 share a chain, k2 elsewhere;
// 2: pairwise different low bits. fullDistinct forbids full 32-bit collisions.
func vConstrainHashes(db *DB, r *refMap, layout int, fullDistinct bool) {
	var h [vMaxKeys]uint32
	for i := 0; i < r.n; i++ {
		h[i] = db.hash(r.keys[i])
	}
	const m = 7
	switch layout {
	case 0:
		for i := 1; i < r.n; i++ {
			vAssume(h[i]&m == h[0]&m)
		}
	case 1:
		vAssume(h[1]&m == h[0]&m)
		for i := 2; i < r.n; i++ {
			vAssume(h[i]&3 != h[0]&3)
		}
	case 2:
		for i := 0; i < r.n; i++ {
			for j := i + 1; j < r.n; j++ {
				vAssume(h[i]&3 != h[j]&3)
			}
		}
	}
	if fullDistinct {
		for i := 0; i < r.n; i++ {
			for j := i + 1; j < r.n; j++ {
				vAssume(h[i] != h[j])
			}
		}
	}
}

// hC05: compaction with a concurrent writer (and crash recovery afterwards).
func hC05(prefixIdx, nops, vlen int, crash bool, layout int, fullDistinct bool, readAfter bool) {
	n := 3
	rec := 10 + 8 + vlen
	var cfs *crashFS
	var fsys fs.FileSystem = fs.Mem
	if crash {
		cfs = &crashFS{inner: fs.Mem}
		fsys = cfs
	}
	opts := smallOpts(fsys, 2, rec)
	opts.maxSegmentSize += uint32(c05extra[prefixIdx])
	dir := "c05"
	db, err := Open(dir, opts)
	vAssert(err == nil, "C05.open")
	if err != nil {
		return
	}
	r := newRef(n, 8)
	vConstrainHashes(db, r, layout, fullDistinct)
	for _, p := range c05prefixes[prefixIdx] {
		applyOp(db, r, p[0], p[1], vlen, "C05.prefix")
	}
	ops := make([]vOp, nops)
	for i := range ops {
		var code int
		if i == 0 {
			code = (vCase() / 12) % (2 * n)
		} else {
			code = vChoice("op", 2*n)
		}
		ops[i].op, ops[i].k = decodeOp(code, n)
		if ops[i].op == 0 {
			ops[i].v = vBytes("val", vlen)
		}
	}
	before := r.clone()
	after := r.clone()
	inflight := -1
	if crash {
		cfs.armed = true
	}
	crashed := vRunCrashable(func() {
		vConcurrentWithMaintenance(func() {
			died := vRunCrashable(func() {
				cr, err := db.Compact()
				vAssert(err == nil, "C05.compact.err")
				if cr.CompactedSegments > 0 {
					vCover("C05.compacted")
				}
			})
			if died {
				panic(vCrashSignal{})
			}
		}, ops, func(i int) {
			o := ops[i]
			before = after.clone()
			refApply(after, o.op, o.k, o.v)
			inflight = i
			died := vRunCrashable(func() { dbApply(&db, dir, nil, after, o.op, o.k, o.v, "C05.writer") })
			if died {
				panic(vCrashSignal{})
			}
			inflight = -1
			before = after.clone()
		}, func(i int) {
			// a read issued while compaction may be in progress sees the acknowledged writes
			if !readAfter {
				return
			}
			o := ops[i]
			g, err := db.Get(after.keys[o.k])
			vAssert(err == nil, "C05.read-during-compaction.err")
			if after.present[o.k] {
				vAssert(g != nil && vEqBytes(g, after.val[o.k]), "C05.read-during-compaction.value")
			} else {
				vAssert(g == nil, "C05.read-during-compaction.deleted-key-absent")
			}
		})
	})
	_ = inflight
	if !crashed {
		checkReads(db, after, "C05.after")
		checkItems(db, after, "C05.after")
		vCheckDir(db, "C05.after")
		vCover("C05.joined")
	} else {
		vCover("C05.crash-inside-concurrent-compaction")
	}
	// process death + recovery: nothing acknowledged is lost, nothing deleted comes back
	fs.VerifDropHandles()
	if crash {
		cfs.armed = false
	}
	opts2 := smallOpts(fs.Mem, 2, rec)
	opts2.maxSegmentSize = opts.maxSegmentSize
	db2, err := Open(dir, opts2)
	vAssert(err == nil, "C05.recovering-open-succeeds")
	if err != nil {
		return
	}
	if crashed {
		mA := stateMatches(db2, before, "C05.recovered")
		mB := stateMatches(db2, after, "C05.recovered")
		vAssert(vOr(mA, mB), "C05.recovered-state-is-before-or-after-inflight-op")
	} else {
		checkReads(db2, after, "C05.recovered")
	}
	checkSelfConsistent(db2, after, "C05.recovered")
	vCover("C05.done")
}

// case = prefix (4) x layout (3) x first writer operation (6) = 72 cases
func H_C05_q() { c := vCase(); hC05(c%4, 1, 2, false, (c/4)%3, true, false) }
func H_C05_r() { c := vCase(); hC05(c%4, 1, 2, false, (c/4)%3, true, true) }
func H_C05_t() { c := vCase(); hC05(c%4, 2, 2, false, (c/4)%3, true, false) }

// one writer operation, full 32-bit hash collisions between keys allowed
func H_C05_fc()    { c := vCase(); hC05(c%4, 1, 2, false, (c/4)%3, false, false) }
func H_C05_crash() { c := vCase(); hC05(c%4, 1, 2, true, (c/4)%3, true, false) }

// hC05seqcrash: no concurrency; the process dies at every mutating file-system
// call inside Compact (or right after it); recovery must give exactly the
// contents before the compaction - in particular no deleted key comes back.
func hC05seqcrash(prefixIdx, layout int) {
	n := 3
	vlen := 2
	rec := 10 + 8 + vlen
	cfs := &crashFS{inner: fs.Mem}
	opts := smallOpts(cfs, 2, rec)
	opts.maxSegmentSize += uint32(c05extra[prefixIdx])
	dir := "c05s"
	db, err := Open(dir, opts)
	vAssert(err == nil, "C05s.open")
	if err != nil {
		return
	}
	r := newRef(n, 8)
	vConstrainHashes(db, r, layout, true)
	for _, p := range c05prefixes[prefixIdx] {
		applyOp(db, r, p[0], p[1], vlen, "C05s.prefix")
	}
	cfs.armed = true
	crashed := vRunCrashable(func() {
		cr, err := db.Compact()
		vAssert(err == nil, "C05s.compact.err")
		if cr.CompactedSegments > 1 {
			vCover("C05s.compacted-several-segments")
		}
	})
	if crashed {
		vCover("C05s.crash-inside-compaction")
	}
	cfs.armed = false
	fs.VerifDropHandles()
	opts2 := smallOpts(fs.Mem, 2, rec)
	opts2.maxSegmentSize = opts.maxSegmentSize
	db2, err := Open(dir, opts2)
	vAssert(err == nil, "C05s.recovering-open-succeeds")
	if err != nil {
		return
	}
	checkReads(db2, r, "C05s.recovered")
	checkItems(db2, r, "C05s.recovered")
	vCover("C05s.done")
}

// case = prefix (4) x layout (3)
func H_C05_seqcrash() { c := vCase(); hC05seqcrash(c%4, (c/4)%3) }

// H_C05_pick: the contract of pickForCompaction on a symbolic datalog state
// (three segments; physical ids and sequence ids in every relative order by
// case; each segment below/above the size threshold and with fragmentation 0/1
// by forked choice; delete-record counters fully symbolic):
// the result is in strictly increasing sequence order, and whenever a picked
// segment holds delete records every OLDER segment (by sequence id) is picked
// too - otherwise compaction would drop a delete marker while an older segment
// still holds the put it cancels.
func H_C05_pick() {
	perms := [][3]uint64{{1, 2, 3}, {1, 3, 2}, {2, 1, 3}, {2, 3, 1}, {3, 1, 2}, {3, 2, 1}}
	seqs := perms[vCase()%6]
	db := &DB{opts: &Options{compactionMinSegmentSize: 1024, compactionMinFragmentation: 0.5}, datalog: &datalog{}}
	var segs [3]*segment
	for id := 0; id < 3; id++ {
		// size below / above the minimum, fragmentation 0 / 1 (forked: concrete
		// floats, so that a counterexample replays exactly); delete-record counter symbolic
		sz := uint32(512)
		if vChoice("big", 2) == 1 {
			sz = 2048
		}
		dead := uint32(0)
		if vChoice("fragmented", 2) == 1 {
			dead = sz
		}
		segs[id] = &segment{file: &file{size: int64(sz)}, id: uint16(id), sequenceID: seqs[id],
			meta: &segmentMeta{DeletedBytes: dead, DeleteRecords: vU32("deleteRecords"), Full: true}}
		db.datalog.segments[id] = segs[id]
	}
	picked := db.pickForCompaction()
	in := func(s *segment) bool {
		for _, p := range picked {
			if p == s {
				return true
			}
		}
		return false
	}
	for i := 1; i < len(picked); i++ {
		vAssert(picked[i-1].sequenceID < picked[i].sequenceID, "C05.pick.oldest-first-no-duplicates")
	}
	for _, p := range picked {
		if p.meta.DeleteRecords > 0 {
			vCover("C05.pick.segment-with-delete-records-picked")
			for _, o := range segs {
				if o.sequenceID < p.sequenceID {
					vAssert(in(o), "C05.pick.all-older-segments-go-with-a-segment-holding-delete-records")
				}
			}
		}
	}
	vCover("C05.pick.done")
}

// H_C05_empty: the record of the empty key with an empty value (an all-zero
// 6-byte record header) sits in a segment that compaction rewrites, first or
// second in that segment (case): it and the records after it survive the
// compaction and a recovery afterwards.
func H_C05_empty() {
	vlen := 2
	rec := 10 + 8 + vlen
	dir := "c05e"
	db, err := Open(dir, smallOpts(fs.Mem, 2, rec))
	vAssert(err == nil, "C05e.open")
	if err != nil {
		return
	}
	empty := []byte{}
	k1 := vKey(1, 8)
	v1 := vBytes("val", vlen)
	if vCase()%2 == 0 {
		vAssert(db.Put(empty, empty) == nil, "C05e.put")
		vAssert(db.Put(k1, v1) == nil, "C05e.put")
	} else {
		vAssert(db.Put(k1, v1) == nil, "C05e.put")
		vAssert(db.Put(empty, empty) == nil, "C05e.put")
	}
	v2 := vBytes("val", vlen)
	vAssert(db.Put(k1, v2) == nil, "C05e.put") // the first segment now holds a dead record
	check := func(d *DB, tag string) {
		g, err := d.Get(empty)
		vAssert(err == nil && g != nil && len(g) == 0, tag+".empty-key-holds-empty-value")
		h, err := d.Has(empty)
		vAssert(err == nil && h, tag+".has-empty-key")
		g1, err := d.Get(k1)
		vAssert(err == nil && g1 != nil && vEqBytes(g1, v2), tag+".other-key")
		vAssert(d.Count() == 2, tag+".count")
	}
	check(db, "C05e.before")
	cr, err := db.Compact()
	vAssert(err == nil, "C05e.compact.err")
	if cr.CompactedSegments > 0 {
		vCover("C05e.compacted")
	}
	check(db, "C05e.after-compaction")
	fs.VerifDropHandles()
	db2, err := Open(dir, smallOpts(fs.Mem, 2, rec))
	vAssert(err == nil, "C05e.recovering-open-succeeds")
	if err != nil {
		return
	}
	check(db2, "C05e.recovered")
	vCover("C05e.done")
}
