package pogreb

import "github.com/akrylysov/pogreb/fs"

// vBigBytes: n bytes, the first (up to) 3 and the last one symbolic, the rest a
// concrete pattern; keeps 64 KiB keys affordable for the engine.
func vBigBytes(name string, n int, tagByte byte) []byte {
	b := make([]byte, n)
	for i := range b {
		b[i] = byte(i*7) ^ tagByte
	}
	ns := 3
	if n < ns {
		ns = n
	}
	s := vBytes(name, ns+1)
	for i := 0; i < ns; i++ {
		b[i] = s[i]
	}
	if n > ns {
		b[n-1] = s[ns]
	}
	return b
}

var c16klens = []int{0, 1, 2, 65534, 65535}
var c16vlens = []int{0, 1, 2, 511, 512, 513}

// hC16rt: boundary key/value lengths round-trip byte-exactly through Put/Get/
// Has/Count/Items, a clean restart and a crash recovery; an empty value stays
// distinguishable from a missing key.
func hC16rt(klen, vlen int) {
	opts := &Options{FileSystem: fs.Mem}
	dir := "c16"
	db, err := Open(dir, opts)
	vAssert(err == nil, "C16.open")
	if err != nil {
		return
	}
	key := vBigBytes("k", klen, 0x5a)
	val := vBigBytes("v", vlen, 0xa5)
	other := []byte{0xff, 0x01} // a second, short key
	oval := vBytes("ov", 1)
	if klen == len(other) {
		vAssume(!vEqBytes(key, other)) // two distinct keys
	}
	vAssert(db.Put(other, oval) == nil, "C16.put.other")
	vAssert(db.Put(key, val) == nil, "C16.put")
	check := func(d *DB, tag string) {
		g, err := d.Get(key)
		vAssert(err == nil, tag+".get.err")
		vAssert(g != nil, tag+".get.present-even-if-empty")
		vAssert(len(g) == vlen && vEqBytes(g, val), tag+".get.value")
		h, err := d.Has(key)
		vAssert(err == nil && h, tag+".has")
		vAssert(d.Count() == 2, tag+".count")
		g2, err := d.Get(other)
		vAssert(err == nil && vEqBytes(g2, oval), tag+".get.other")
		it := d.Items()
		seen := 0
		for j := 0; j < 4; j++ {
			k, v, err := it.Next()
			if err != nil {
				break
			}
			if len(k) == klen && vEqBytes(k, key) {
				seen++
				vAssert(len(v) == vlen && vEqBytes(v, val), tag+".items.value")
			}
		}
		vAssert(seen == 1, tag+".items.once")
	}
	check(db, "C16.fresh")
	vAssert(db.Close() == nil, "C16.close")
	db, err = Open(dir, opts)
	vAssert(err == nil, "C16.reopen")
	if err != nil {
		return
	}
	check(db, "C16.restart")
	fs.VerifDropHandles()
	db, err = Open(dir, opts)
	vAssert(err == nil, "C16.recover")
	if err != nil {
		return
	}
	check(db, "C16.recovered")
	// a missing key is distinguishable from an empty value
	miss := append(append([]byte{}, key...), 0x77)
	if len(miss) <= MaxKeyLength {
		g, err := db.Get(miss)
		vAssert(err == nil && g == nil, "C16.missing-key-is-nil")
	}
	vCover("C16.rt.done")
}

func H_C16_rt() {
	c := vCase()
	hC16rt(c16klens[c%len(c16klens)], c16vlens[(c/len(c16klens))%len(c16vlens)])
}

// hC16over: a Put whose key exceeds the limit fails and leaves everything
// untouched; Get/Has/Delete with an over-long key behave as for an absent key
// and never match the stored key that shares its low 16 length bits and prefix.
func hC16over(extra int, stored int) {
	opts := &Options{FileSystem: fs.Mem}
	dir := "c16o"
	db, err := Open(dir, opts)
	vAssert(err == nil, "C16o.open")
	if err != nil {
		return
	}
	long := vBigBytes("k", 65536+extra, 0x5a)
	if !vSymbolic() {
		vFixHash(long) // realise the model's hash of the long key (it may collide with the short one)
	}
	short := append([]byte{}, long[:stored]...) // same prefix, length = long mod 65536 when stored == extra
	sval := vBytes("sv", 2)
	vAssert(db.Put(short, sval) == nil, "C16o.put.short")
	sizeBefore, err := db.FileSize()
	vAssert(err == nil, "C16o.filesize")
	segBefore := db.datalog.curSeg.size
	v := vBytes("v", 1)
	err = db.Put(long, v)
	vAssert(err != nil, "C16o.put.overlong-key-rejected")
	vAssert(err == errKeyTooLarge, "C16o.put.error-value")
	sizeAfter, _ := db.FileSize()
	vAssert(sizeAfter == sizeBefore && db.datalog.curSeg.size == segBefore, "C16o.put.no-side-effect-on-files")
	vAssert(db.Count() == 1, "C16o.put.count-unchanged")
	g, err := db.Get(long)
	vAssert(err == nil && g == nil, "C16o.get.overlong-key-absent")
	h, err := db.Has(long)
	vAssert(err == nil && !h, "C16o.has.overlong-key-absent")
	vAssert(db.Delete(long) == nil, "C16o.delete.overlong-key")
	vAssert(db.Count() == 1, "C16o.delete.overlong-key-deletes-nothing")
	g, err = db.Get(short)
	vAssert(err == nil && vEqBytes(g, sval), "C16o.short-key-intact")
	// value limit: one byte over 512 MiB (arithmetic only, nothing is materialised)
	huge := vHugeBytes(MaxValueLength + 1)
	err = db.Put(short, huge)
	vAssert(err == errValueTooLarge, "C16o.put.overlong-value-rejected")
	g, err = db.Get(short)
	vAssert(err == nil && vEqBytes(g, sval), "C16o.value-intact-after-rejected-put")
	vCover("C16.over.done")
}

func H_C16_over() {
	c := vCase()
	extra := []int{0, 1, 2}[c%3]
	hC16over(extra, extra)
}

// hC16seg: records around the capacity of a segment: one that exactly fills the
// remaining space, one byte more (goes to a fresh segment), and one that exceeds
// the capacity of a whole segment (still written to an empty segment); all must
// round-trip through restart and crash recovery.
func hC16seg(delta int) {
	capBytes := 64 // record capacity of a segment beyond the header
	opts := &Options{FileSystem: fs.Mem, maxSegmentSize: uint32(headerSize + capBytes)}
	dir := "c16s"
	db, err := Open(dir, opts)
	vAssert(err == nil, "C16s.open")
	if err != nil {
		return
	}
	k0 := []byte{0x01, 0xaa}
	k1 := []byte{0x02, 0xbb}
	k2 := []byte{0x03, 0xcc}
	v0 := vBytes("v0", 8) // record 0: 10+2+8 = 20 bytes, 44 remain
	// record 1: 10+2+len = 44+delta  (delta -1: fits with a byte to spare, 0: exact fit, +1: rolls over)
	v1 := vBytes("v1", 44+delta-12)
	// record 2 exceeds the capacity of a whole segment
	v2 := vBytes("v2", capBytes+5)
	vAssert(db.Put(k0, v0) == nil, "C16s.put0")
	vAssert(db.Put(k1, v1) == nil, "C16s.put1")
	seg1 := db.datalog.curSeg.id
	if delta <= 0 {
		vAssert(seg1 == 0, "C16s.record-that-fits-stays-in-the-segment")
	} else {
		vAssert(seg1 == 1, "C16s.record-that-does-not-fit-goes-to-a-fresh-segment")
		vCover("C16s.rolled-over")
	}
	vAssert(db.Put(k2, v2) == nil, "C16s.put2-larger-than-a-segment")
	check := func(d *DB, tag string) {
		for i, kv := range [][2][]byte{{k0, v0}, {k1, v1}, {k2, v2}} {
			g, err := d.Get(kv[0])
			vAssert(err == nil && g != nil && vEqBytes(g, kv[1]), tag+".get")
			_ = i
		}
		vAssert(d.Count() == 3, tag+".count")
	}
	check(db, "C16s.fresh")
	vAssert(db.Close() == nil, "C16s.close")
	db, err = Open(dir, opts)
	vAssert(err == nil, "C16s.reopen")
	if err != nil {
		return
	}
	check(db, "C16s.restart")
	fs.VerifDropHandles()
	db, err = Open(dir, opts)
	vAssert(err == nil, "C16s.recover")
	if err != nil {
		return
	}
	check(db, "C16s.recovered")
	vCover("C16.seg.done")
}

func H_C16_seg() { hC16seg(vCase()%3 - 1) }

// sizeOnlyFile: a segment file that records where the last write went instead of
// storing it (the append offset of a multi-GiB segment is symbolic).
type sizeOnlyFile struct {
	fs.File
	lastOff int64
	lastLen int
	writes  int
}

func (f *sizeOnlyFile) WriteAt(p []byte, off int64) (int, error) {
	f.lastOff, f.lastLen = off, len(p)
	f.writes++
	return len(p), nil
}
func (f *sizeOnlyFile) Sync() error  { return nil }
func (f *sizeOnlyFile) Close() error { return nil }

// H_C16_fit: the "does the record fit" decision of datalog.writeRecord for a
// current segment of ANY size up to the limit (symbolic 64-bit size S, symbolic
// 32-bit maxSegmentSize M with S <= M, also the default M = MaxUint32): the
// record is appended at S only if S+len <= M, its offset is representable in the
// slot's 32 bits, and otherwise the log rolls over to a fresh segment where the
// record starts right after the header.
func H_C16_fit() {
	opts := (&Options{FileSystem: fs.Mem}).copyWithDefaults("c16fit")
	key := vBytes("key", 3)
	val := vBytes("val", 5)
	data := encodePutRecord(key, val)
	L := int64(len(data))
	M := vU32("maxSegmentSize")
	if vCase()%2 == 1 {
		M = 0xFFFFFFFF // the default
	}
	S := int64(vU64("size"))
	vAssume(int64(M) >= int64(headerSize)+L)
	vAssume(S >= int64(headerSize) && S <= int64(M))
	opts.maxSegmentSize = M
	stub := &sizeOnlyFile{}
	seg := &segment{file: &file{File: stub, size: S}, id: 0, sequenceID: 1, name: segmentName(0, 1), meta: &segmentMeta{}}
	dl := &datalog{opts: opts, curSeg: seg, maxSequenceID: 1}
	dl.segments[0] = seg
	id, off, err := dl.writeRecord(data, recordTypePut)
	vAssert(err == nil, "C16.fit.err")
	if err != nil {
		return
	}
	if id == 0 {
		vCover("C16.fit.appended-to-current-segment")
		vAssert(S+L <= int64(M), "C16.fit.record-appended-beyond-maxSegmentSize")
		vAssert(int64(off) == S && stub.lastOff == S, "C16.fit.slot-offset-is-the-append-offset")
		vAssert(seg.size == S+L, "C16.fit.size-advanced")
	} else {
		vCover("C16.fit.rolled-over")
		vAssert(S+L > int64(M), "C16.fit.rolled-over-although-the-record-fits")
		vAssert(stub.writes == 0, "C16.fit.full-segment-untouched")
		vAssert(int64(off) == int64(headerSize), "C16.fit.first-record-of-new-segment")
		vAssert(seg.meta.Full, "C16.fit.old-segment-sealed")
	}
	vCover("C16.fit.done")
}
