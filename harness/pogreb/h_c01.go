package pogreb

import "github.com/akrylysov/pogreb/fs"

// H_C01_seq: bounded histories through the public API on fs.Mem, symbolic
// hashes (uninterpreted), symbolic key/value contents; map semantics after
// every step, full Items scan at the end.
// case = code of the first symbolic step; VERIF bounds: n keys, prefix puts, L steps.
func hC01seq(n, prefix, L, vlen int, itemsEachStep bool) {
	opts := smallOpts(fs.Mem, 2, 10+8+vlen)
	db, err := Open("c01", opts)
	vAssert(err == nil, "C01.open")
	if err != nil {
		return
	}
	r := newRef(n, 8)
	for i := 0; i < prefix; i++ {
		applyOp(db, r, 0, i%n, vlen, "C01.prefix")
	}
	checkReads(db, r, "C01.prefix")
	nops := 2*n + 2
	for step := 0; step < L; step++ {
		var code int
		if step == 0 {
			code = vCase() % nops
		} else {
			code = vChoice("op", nops)
		}
		op, k := decodeOp(code, n)
		applyOp(db, r, op, k, vlen, "C01.step")
		if itemsEachStep {
			checkItems(db, r, "C11.step")
			vAssert(db.Count() == r.count(), "C11.step.count")
		} else {
			checkReads(db, r, "C01.step")
		}
	}
	checkGetAppend(db, r, "C01.final")
	checkItems(db, r, "C01.final")
	if db.index.level > 0 {
		vCover("C01.level>0")
	}
	if db.index.overflow.size > int64(headerSize) {
		vCover("C01.overflow-bucket-created")
	}
	vCover("C01.seq.done")
}

func H_C01_seq_q() { hC01seq(3, 3, 2, 2, false) }
func H_C01_seq_t() { hC01seq(3, 3, 4, 2, false) }

// C11 (quiescent part): a full Items scan after every step.
func H_C11_seq_q() { hC01seq(3, 3, 2, 2, true) }
func H_C11_seq_t() { hC01seq(3, 4, 3, 2, true) }

// hC01chain: REAL slotsPerBucket (31). 34 keys whose hashes agree in the low
// three bits (full hashes symbolic and pairwise distinct): after the first split
// they all sit in one chain of a full bucket plus an overflow bucket. Then L
// symbolic steps on the keys at the interesting positions (first/last slot of the
// head bucket, first/last slot of the overflow bucket), map semantics after every
// step and a full Items scan at the end.
func hC01chain(L int) {
	vAssert(slotsPerBucket == 31, "C01.chain.real-constant")
	nk := 34
	vlen := 2
	opts := smallOpts(fs.Mem, 8, 10+8+vlen)
	db, err := Open("c01c", opts)
	vAssert(err == nil, "C01.chain.open")
	if err != nil {
		return
	}
	r := newRef(nk, 8)
	for i := 0; i < nk; i++ {
		h := db.hash(r.keys[i])
		vAssume(h&7 == 1)
		for j := 0; j < i; j++ {
			vAssume(h != db.hash(r.keys[j]))
		}
	}
	for i := 0; i < nk; i++ {
		applyOp(db, r, 0, i, vlen, "C01.chain.fill")
	}
	if db.index.overflow.size > int64(headerSize) {
		vCover("C01.chain.overflow-bucket-at-31-slots")
	}
	checkReads(db, r, "C01.chain.filled")
	focus := []int{0, 30, 31, 33}
	nops := 2*len(focus) + 1
	for step := 0; step < L; step++ {
		var code int
		if step == 0 {
			code = vCase() % nops
		} else {
			code = vChoice("op", nops)
		}
		switch {
		case code < len(focus):
			applyOp(db, r, 0, focus[code], vlen, "C01.chain.step")
		case code < 2*len(focus):
			applyOp(db, r, 1, focus[code-len(focus)], vlen, "C01.chain.step")
		default:
			applyOp(db, r, 2, 0, vlen, "C01.chain.step")
		}
		checkReads(db, r, "C01.chain.step")
	}
	checkItems(db, r, "C01.chain.final")
	vCover("C01.chain.done")
}

func H_C01_chain31() { hC01chain(2) }

// hC01deep (slotsPerBucket scaled to 2): 6 keys whose hashes agree in the low
// three bits, so that one slot writer creates several overflow buckets in a row
// (a split that sends five slots to one side, a chain of three buckets), then L
// symbolic steps; map semantics after every step, full Items scan at the end.
func hC01deep(L int) {
	nk := 8 // 6 are filled in, 2 more can be inserted by the symbolic steps (re-using freed overflow buckets)
	vlen := 2
	opts := smallOpts(fs.Mem, 4, 10+8+vlen)
	db, err := Open("c01d", opts)
	vAssert(err == nil, "C01.deep.open")
	if err != nil {
		return
	}
	r := newRef(nk, 8)
	for i := 0; i < nk; i++ {
		h := db.hash(r.keys[i])
		vAssume(h&7 == 5)
		for j := 0; j < i; j++ {
			vAssume(h != db.hash(r.keys[j]))
		}
	}
	for i := 0; i < 6; i++ {
		applyOp(db, r, 0, i, vlen, "C01.deep.fill")
		checkReads(db, r, "C01.deep.fill")
	}
	nops := 2*nk + 1
	for step := 0; step < L; step++ {
		var code int
		if step == 0 {
			code = vCase() % nops
		} else {
			code = vChoice("op", nops)
		}
		op, k := decodeOp(code, nk)
		applyOp(db, r, op, k, vlen, "C01.deep.step")
		checkReads(db, r, "C01.deep.step")
	}
	checkItems(db, r, "C01.deep.final")
	if len(db.index.freeBucketOffs) > 0 {
		vCover("C01.deep.free-overflow-buckets")
	}
	vCover("C01.deep.done")
}

func H_C01_deep() { hC01deep(2) }
