package pogreb

import "github.com/akrylysov/pogreb/fs"

// H_C01_seq: bounded histories through the public API on fs.Mem, symbolic
// hashes (uninterpreted), symbolic key/value contents; map semantics after
// every step, full Items scan at the end.
// case = code of the first symbolic step; VERIF bounds: n keys, prefix puts, L steps.
func hC01seq(n, prefix, L, vlen int, itemsEachStep bool) {
	opts := smallOpts(fs.Mem, 2, 10+8+vlen)
	db, err := Open("c01", opts)
	vAssert(err == nil, "C01.open")
	if err != nil {
		return
	}
	r := newRef(n, 8)
	for i := 0; i < prefix; i++ {
		applyOp(db, r, 0, i%n, vlen, "C01.prefix")
	}
	checkReads(db, r, "C01.prefix")
	nops := 2*n + 2
	for step := 0; step < L; step++ {
		var code int
		if step == 0 {
			code = vCase() % nops
		} else {
			code = vChoice("op", nops)
		}
		op, k := decodeOp(code, n)
		applyOp(db, r, op, k, vlen, "C01.step")
		if itemsEachStep {
			checkItems(db, r, "C11.step")
			vAssert(db.Count() == r.count(), "C11.step.count")
		} else {
			checkReads(db, r, "C01.step")
		}
	}
	checkGetAppend(db, r, "C01.final")
	checkItems(db, r, "C01.final")
	if db.index.level > 0 {
		vCover("C01.level>0")
	}
	if db.index.overflow.size > int64(headerSize) {
		vCover("C01.overflow-bucket-created")
	}
	vCover("C01.seq.done")
}

func H_C01_seq_q() { hC01seq(3, 3, 2, 2, false) }
func H_C01_seq_t() { hC01seq(3, 3, 4, 2, false) }

// C11 (quiescent part): a full Items scan after every step.
func H_C11_seq_q() { hC01seq(3, 3, 2, 2, true) }
func H_C11_seq_t() { hC01seq(3, 4, 3, 2, true) }
