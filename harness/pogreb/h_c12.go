package pogreb

import "github.com/akrylysov/pogreb/fs"

// hC12: Backup taken while a writer keeps going. The copy must open and hold
// the contents as of one instant between Backup's call and its return: a
// prefix of the writer's operations that includes everything acknowledged
// before the call and nothing issued after the return.
var hC12div = 2

func hC12(prefixIdx, nops, vlen, layout int) {
	n := 3
	rec := 10 + 8 + vlen
	opts := smallOpts(fs.Mem, 2, rec)
	dir := "c12"
	db, err := Open(dir, opts)
	vAssert(err == nil, "C12.open")
	if err != nil {
		return
	}
	r := newRef(n, 8)
	vConstrainHashes(db, r, layout, true)
	for _, p := range c05prefixes[prefixIdx] {
		applyOp(db, r, p[0], p[1], vlen, "C12.prefix")
	}
	ops := make([]vOp, nops)
	// refs[i] = reference after the first i writer operations
	refs := make([]*refMap, nops+1)
	refs[0] = r.clone()
	for i := range ops {
		var code int
		if i == 0 {
			code = (vCase() / hC12div) % (2 * n)
		} else {
			code = vChoice("op", 2*n)
		}
		ops[i].op, ops[i].k = decodeOp(code, n)
		if ops[i].op == 0 {
			ops[i].v = vBytes("val", vlen)
		}
		nr := refs[i].clone()
		refApply(nr, ops[i].op, ops[i].k, ops[i].v)
		refs[i+1] = nr
	}
	doneBefore := 0 // operations acknowledged before Backup was called
	doneAtReturn := nops
	started := 0
	backupReturned := false
	var berr error
	vConcurrentWithMaintenance(func() {
		doneBefore = started
		berr = db.Backup("c12bk")
		backupReturned = true
		doneAtReturn = started
	}, ops, func(i int) {
		o := ops[i]
		dbApply(&db, dir, nil, refs[i+1], o.op, o.k, o.v, "C12.writer")
		started = i + 1
	}, nil)
	_ = backupReturned
	vAssert(berr == nil, "C12.backup.err")
	if berr != nil {
		return
	}
	// the source is unaffected
	checkReads(db, refs[nops], "C12.source")
	checkItems(db, refs[nops], "C12.source")
	if db.datalog.curSeg != nil && doneAtReturn > doneBefore {
		vCover("C12.writer-ran-during-backup")
	}
	// the copy opens (lock file present => index rebuilt from the copied log)
	bopts := smallOpts(fs.Mem, 2, rec)
	bk, err := Open("c12bk", bopts)
	vAssert(err == nil, "C12.copy-opens")
	if err != nil {
		return
	}
	ok := false
	for p := doneBefore; p <= doneAtReturn; p++ {
		ok = vOr(ok, stateMatches(bk, refs[p], "C12.copy"))
	}
	vAssert(ok, "C12.copy-is-a-point-in-time-snapshot")
	checkSelfConsistent(bk, refs[nops], "C12.copy")
	vCover("C12.done")
}

// quick: case = prefix {1,2} x first writer op (6), hash layout 1
func H_C12_q() { c := vCase(); hC12(1+c%2, 2, 2, 1) }

// thorough: case = prefix (3) x layout (2) x first writer op (6)
func H_C12_t()  { c := vCase(); hC12div = 6; hC12(c%3, 2, 2, (c/3)%2) }
func H_C12_t3() { c := vCase(); hC12(1+c%2, 3, 2, 1) }

// H_C12_recovered: Backup of a database that was opened through recovery after
// a history in which compaction freed a segment id that a rollover re-used
// (physical id order != sequence order), with writes of two sizes after the
// recovery: the copy must hold exactly the contents at the (quiescent) backup.
func H_C12_recovered() {
	n := 2
	big, small := 40, 2
	recBig := 10 + 8 + big
	dir := "c12r"
	mk := func() *Options { return smallOpts(fs.Mem, 2, recBig) }
	db, err := Open(dir, mk())
	vAssert(err == nil, "C12r.open")
	if err != nil {
		return
	}
	r := newRef(n, 8)
	put := func(d *DB, k, vlen int, tag string) {
		v := vBytes("val", vlen)
		refApply(r, 0, k, v)
		vAssert(d.Put(r.keys[k], v) == nil, tag)
	}
	put(db, 0, big, "C12r.p1")
	put(db, 0, big, "C12r.p2")
	put(db, 1, big, "C12r.p3")
	_, err = db.Compact()
	vAssert(err == nil, "C12r.compact")
	put(db, 1, small, "C12r.p4")
	put(db, 0, big, "C12r.p5")
	fs.VerifDropHandles() // crash
	db2, err := Open(dir, mk())
	vAssert(err == nil, "C12r.recovering-open")
	if err != nil {
		return
	}
	vCheckLogInvariant(db2, "C12r.recovered")
	for step := 0; step < 2; step++ {
		k := vChoice("k", n)
		if vChoice("del", 3) == 0 {
			refApply(r, 1, k, nil)
			vAssert(db2.Delete(r.keys[k]) == nil, "C12r.delete")
		} else {
			vl := small
			if vChoice("vlen", 2) == 1 {
				vl = big
			}
			put(db2, k, vl, "C12r.put")
		}
	}
	checkReads(db2, r, "C12r.source")
	vAssert(db2.Backup("c12rbk") == nil, "C12r.backup")
	bk, err := Open("c12rbk", mk())
	vAssert(err == nil, "C12r.copy-opens")
	if err != nil {
		return
	}
	checkReads(bk, r, "C12r.copy")
	checkItems(bk, r, "C12r.copy")
	checkReads(db2, r, "C12r.source-unaffected")
	vCover("C12r.done")
}
