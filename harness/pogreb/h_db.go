package pogreb

// Shared machinery of the DB-level harnesses: reference map, key construction,
// observable-state comparison.

import (
	"github.com/akrylysov/pogreb/fs"
)

const vMaxKeys = 72

type refMap struct {
	n       int
	keys    [vMaxKeys][]byte
	present [vMaxKeys]bool
	val     [vMaxKeys][]byte
}

func newRef(n int, klen int) *refMap {
	r := &refMap{n: n}
	for i := 0; i < n; i++ {
		r.keys[i] = vKey(i, klen)
	}
	return r
}

func (r *refMap) count() uint32 {
	c := uint32(0)
	for i := 0; i < r.n; i++ {
		if r.present[i] {
			c++
		}
	}
	return c
}

func (r *refMap) clone() *refMap {
	c := *r
	return &c
}

func smallOpts(fsys fs.FileSystem, segRecords int, recSize int) *Options {
	return &Options{
		FileSystem:                 fsys,
		maxSegmentSize:             uint32(headerSize + segRecords*recSize),
		compactionMinSegmentSize:   1,
		compactionMinFragmentation: 0.01,
	}
}

// checkReads compares Get/GetAppend/Has for every key and Count against ref.
func checkReads(db *DB, r *refMap, tag string) {
	for i := 0; i < r.n; i++ {
		got, err := db.Get(r.keys[i])
		vAssert(err == nil, tag+".get.err")
		has, err := db.Has(r.keys[i])
		vAssert(err == nil, tag+".has.err")
		if r.present[i] {
			vAssert(got != nil, tag+".get.missing")
			vAssert(vEqBytes(got, r.val[i]), tag+".get.value")
			vAssert(has, tag+".has.false")
		} else {
			vAssert(got == nil, tag+".get.ghost")
			vAssert(!has, tag+".has.ghost")
		}
	}
	vAssert(db.Count() == r.count(), tag+".count")
}

func checkGetAppend(db *DB, r *refMap, tag string) {
	for i := 0; i < r.n; i++ {
		buf := make([]byte, 2, 64)
		buf[0], buf[1] = 0xAA, 0xBB
		got, err := db.GetAppend(r.keys[i], buf)
		vAssert(err == nil, tag+".getappend.err")
		if r.present[i] {
			vAssert(len(got) == 2+len(r.val[i]), tag+".getappend.len")
			if len(got) == 2+len(r.val[i]) {
				vAssert(got[0] == 0xAA && got[1] == 0xBB, tag+".getappend.prefix")
				vAssert(vEqBytes(got[2:], r.val[i]), tag+".getappend.value")
			}
		} else {
			vAssert(got == nil, tag+".getappend.ghost")
		}
	}
}

// checkItems runs a full scan: every live key exactly once with its value,
// then ErrIterationDone twice.
func checkItems(db *DB, r *refMap, tag string) {
	var seen [vMaxKeys]int
	it := db.Items()
	total := 0
	for iter := 0; iter < 4*vMaxKeys; iter++ {
		k, v, err := it.Next()
		if err == ErrIterationDone {
			break
		}
		vAssert(err == nil, tag+".items.err")
		if err != nil {
			return
		}
		total++
		matched := false
		for i := 0; i < r.n; i++ {
			if len(k) == len(r.keys[i]) && len(k) > 0 && k[0] == r.keys[i][0] {
				matched = true
				seen[i]++
				vAssert(vEqBytes(k, r.keys[i]), tag+".items.key")
				vAssert(r.present[i], tag+".items.ghost")
				if r.present[i] {
					vAssert(vEqBytes(v, r.val[i]), tag+".items.value")
				}
			}
		}
		vAssert(matched, tag+".items.unknownkey")
	}
	for i := 0; i < r.n; i++ {
		if r.present[i] {
			vAssert(seen[i] == 1, tag+".items.once")
		} else {
			vAssert(seen[i] == 0, tag+".items.absent")
		}
	}
	vAssert(uint32(total) == r.count(), tag+".items.total")
	_, _, err := it.Next()
	vAssert(err == ErrIterationDone, tag+".items.done1")
	_, _, err = it.Next()
	vAssert(err == ErrIterationDone, tag+".items.done2")
}

// applyOp performs one mutating step chosen by (op, k) and mirrors it in ref.
// ops: 0 put, 1 delete, 2 compact, 3 sync
func applyOp(db *DB, r *refMap, op, k int, vlen int, tag string) {
	switch op {
	case 0:
		v := vBytes("val", vlen)
		vAssert(db.Put(r.keys[k], v) == nil, tag+".put.err")
		r.present[k] = true
		r.val[k] = v
	case 1:
		vAssert(db.Delete(r.keys[k]) == nil, tag+".delete.err")
		r.present[k] = false
		r.val[k] = nil
	case 2:
		_, err := db.Compact()
		vAssert(err == nil, tag+".compact.err")
	case 3:
		vAssert(db.Sync() == nil, tag+".sync.err")
	}
}

// chooseOp returns a symbolic (forking) choice of operation over n keys:
// codes 0..n-1 put key, n..2n-1 delete key, 2n compact, 2n+1 sync.
func decodeOp(code, n int) (op, k int) {
	switch {
	case code < n:
		return 0, code
	case code < 2*n:
		return 1, code - n
	case code == 2*n:
		return 2, 0
	}
	return 3, 0
}

// vAgeLog advances the segment sequence counter as a long history would have
// (sequence ids only grow and are never re-used; 64-bit): the next segment gets
// sequence id 65536.
func vAgeLog(db *DB) {
	if db.datalog.maxSequenceID < 65535 {
		db.datalog.maxSequenceID = 65535
	}
}
