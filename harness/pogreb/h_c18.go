package pogreb

// C18: on-disk format = documented format version 2 (differential, symbolic contents).

func H_C18_rec() {
	c := vCase()
	kl := c % 4
	vl := (c / 4) % 4
	del := (c/16)%2 == 1
	k := vBytes("k", kl)
	v := vBytes("v", vl)
	rt := recordTypePut
	if del {
		rt = recordTypeDelete
	}
	got := encodeRecord(k, v, rt)
	want := refEncode(k, v, del)
	vAssert(len(got) == len(want), "C18.rec.len")
	vAssert(vEqBytes(got, want), "C18.rec.bytes")
	vCover("C18.rec.done")
}

func H_C18_hdr() {
	got, err := newHeader().MarshalBinary()
	vAssert(err == nil, "C18.hdr.err")
	vAssert(len(got) == 512 && headerSize == 512, "C18.hdr.size")
	vAssert(vEqBytes(got, refHeader()), "C18.hdr.bytes")
	h := &header{}
	vAssert(h.UnmarshalBinary(refHeader()) == nil, "C18.hdr.accepts-reference")
	vAssert(h.formatVersion == 2, "C18.hdr.version")
	// any other signature is rejected
	bad := refHeader()
	sig := vBytes("sig", 8)
	copy(bad, sig)
	vAssume(!vEqBytes(sig, refHeader()[:8]))
	vAssert(h.UnmarshalBinary(bad) == errCorrupted, "C18.hdr.rejects-bad-signature")
	vCover("C18.hdr.done")
}

// refBucket lays a bucket out as documented: 31 x (hash u32, segment u16,
// key size u16, value size u32, offset u32) little endian, next i64 at 496.
func refBucket(b *bucket) []byte {
	out := make([]byte, 512)
	for i := 0; i < 31 && i < slotsPerBucket; i++ {
		sl := b.slots[i]
		o := 16 * i
		out[o] = byte(sl.hash)
		out[o+1] = byte(sl.hash >> 8)
		out[o+2] = byte(sl.hash >> 16)
		out[o+3] = byte(sl.hash >> 24)
		out[o+4] = byte(sl.segmentID)
		out[o+5] = byte(sl.segmentID >> 8)
		out[o+6] = byte(sl.keySize)
		out[o+7] = byte(sl.keySize >> 8)
		out[o+8] = byte(sl.valueSize)
		out[o+9] = byte(sl.valueSize >> 8)
		out[o+10] = byte(sl.valueSize >> 16)
		out[o+11] = byte(sl.valueSize >> 24)
		out[o+12] = byte(sl.offset)
		out[o+13] = byte(sl.offset >> 8)
		out[o+14] = byte(sl.offset >> 16)
		out[o+15] = byte(sl.offset >> 24)
	}
	n := uint64(b.next)
	for j := 0; j < 8; j++ {
		out[16*31+j] = byte(n >> (8 * uint(j)))
	}
	return out
}

func H_C18_bucket() {
	vAssert(slotsPerBucket == 31 && bucketSize == 512, "C18.bucket.constants")
	b := &bucket{}
	for i := 0; i < slotsPerBucket; i++ {
		b.slots[i] = slot{hash: vU32("h"), segmentID: vU16("seg"), keySize: vU16("ks"), valueSize: vU32("vs"), offset: vU32("off")}
	}
	b.next = int64(vU64("next"))
	got, err := b.MarshalBinary()
	vAssert(err == nil, "C18.bucket.err")
	want := refBucket(b)
	vAssert(vEqBytes(got, want), "C18.bucket.marshal")
	b2 := &bucket{}
	vAssert(b2.UnmarshalBinary(want) == nil, "C18.bucket.unmarshal.err")
	same := b2.next == b.next
	for i := 0; i < slotsPerBucket; i++ {
		same = vAnd(same, b2.slots[i] == b.slots[i])
	}
	vAssert(same, "C18.bucket.unmarshal")
	for _, i := range []uint32{0, 1, 2, 1000, 1 << 22} {
		vAssert(bucketOffset(i) == 512+512*int64(i), "C18.bucket.offset")
	}
	vCover("C18.bucket.done")
}

func H_C18_names() {
	vAssert(segmentName(0, 1) == "00000-1.psg", "C18.names.0")
	vAssert(segmentName(7, 12345678901) == "00007-12345678901.psg", "C18.names.1")
	vAssert(segmentName(32766, 42) == "32766-42.psg", "C18.names.2")
	id, seq, err := parseSegmentName("00007-12345678901.psg")
	vAssert(err == nil && id == 7 && seq == 12345678901, "C18.names.parse")
	id, seq, err = parseSegmentName("00003.psg") // format version 1 names carry no sequence id
	vAssert(err == nil && id == 3 && seq == 0, "C18.names.parse-legacy")
	vAssert(segmentMetaName(1, 2) == "00001-2.psg.pmt", "C18.names.meta")
	vAssert(indexMainName == "main.pix" && indexOverflowName == "overflow.pix" && indexMetaName == "index.pmt" && dbMetaName == "db.pmt" && lockName == "lock", "C18.names.files")
	vCover("C18.names.done")
}

// H_C18_meta: the gob side files are matched by exported field name and type;
// pinned to the format version 2 layout (see docs/design.md and the pinned source).
func H_C18_meta() {
	vAssert(vGobFields(&dbMeta{}) == "HashSeed uint32;", "C18.meta.db-fields")
	vAssert(vGobFields(&indexMeta{}) == "Level uint8;NumKeys uint32;NumBuckets uint32;SplitBucketIndex uint32;FreeOverflowBuckets []int64;", "C18.meta.index-fields")
	vAssert(vGobFields(&segmentMeta{}) == "Full bool;PutRecords uint32;DeleteRecords uint32;DeletedKeys uint32;DeletedBytes uint32;", "C18.meta.segment-fields")
	vAssert(formatVersion == 2 && headerSize == 512 && bucketSize == 512 && segmentExt == ".psg" && metaExt == ".pmt" && indexExt == ".pix", "C18.meta.constants")
	vCover("C18.meta.done")
}
