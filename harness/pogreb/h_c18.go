package pogreb

// C18: on-disk format = documented format version 2 (differential, symbolic contents).

func H_C18_rec() {
	c := vCase()
	kl := c % 4
	vl := (c / 4) % 4
	del := (c/16)%2 == 1
	k := vBytes("k", kl)
	v := vBytes("v", vl)
	rt := recordTypePut
	if del {
		rt = recordTypeDelete
	}
	got := encodeRecord(k, v, rt)
	want := refEncode(k, v, del)
	vAssert(len(got) == len(want), "C18.rec.len")
	vAssert(vEqBytes(got, want), "C18.rec.bytes")
	vCover("C18.rec.done")
}
