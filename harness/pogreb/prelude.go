package pogreb

// Harness prelude. The SSAX engine intercepts every v* function below; the
// bodies here are the *native* semantics used when a solver counterexample is
// replayed against the real build (go test -overlay) and for translator
// validation. Inputs then come from a replay vector (VERIF_REPLAY=<json>).

import (
	"bytes"
	"encoding/json"
	"fmt"
	"os"
	"reflect"
	"strings"
	"sync"
)

type vVector struct {
	Harness string              `json:"harness"`
	Case    int                 `json:"case"`
	Scalars map[string]uint64   `json:"scalars"`
	Bytes   map[string][]uint64 `json:"bytes"`
	Choices []int64             `json:"choices"`
	Sched   []int64             `json:"sched"`
	Hashes  []vHashTarget       `json:"hashes"`
	Records map[string][]int64  `json:"records"`
	Seed    uint32              `json:"seed"`
}

type vHashTarget struct {
	Key []uint64 `json:"key"`
	H   uint32   `json:"h"`
}

var (
	vVec       = &vVector{Scalars: map[string]uint64{}, Bytes: map[string][]uint64{}}
	vChoiceIdx int
	vUsed      = map[string]bool{}
	vFailures  []string
	vCovers    = map[string]bool{}
	vObs       []string
	vMu        sync.Mutex
	vWg        sync.WaitGroup
)

type vAssumeFailed struct{}

func vLoad(path string) error {
	b, err := os.ReadFile(path)
	if err != nil {
		return err
	}
	v := &vVector{}
	if err := json.Unmarshal(b, v); err != nil {
		return err
	}
	if v.Scalars == nil {
		v.Scalars = map[string]uint64{}
	}
	if v.Bytes == nil {
		v.Bytes = map[string][]uint64{}
	}
	vVec = v
	vChoiceIdx = 0
	vUsed = map[string]bool{}
	vFailures = nil
	vCovers = map[string]bool{}
	vObs = nil
	return nil
}

func vUnique(name string) string {
	if !vUsed[name] {
		vUsed[name] = true
		return name
	}
	for i := 2; ; i++ {
		n := fmt.Sprintf("%s#%d", name, i)
		if !vUsed[n] {
			vUsed[n] = true
			return n
		}
	}
}

func vScalar(name string) uint64 { return vVec.Scalars[vUnique(name)] }

func vBool(name string) bool  { return vScalar(name)&1 == 1 }
func vU8(name string) uint8   { return uint8(vScalar(name)) }
func vU16(name string) uint16 { return uint16(vScalar(name)) }
func vU32(name string) uint32 { return uint32(vScalar(name)) }
func vU64(name string) uint64 { return vScalar(name) }
func vInt(name string, lo, hi int) int {
	x := int(int64(vScalar(name)))
	if x < lo || x > hi {
		panic(vAssumeFailed{})
	}
	return x
}

func vChoice(name string, n int) int {
	if vChoiceIdx >= len(vVec.Choices) {
		return 0
	}
	c := int(vVec.Choices[vChoiceIdx])
	vChoiceIdx++
	if c >= n {
		c = n - 1
	}
	return c
}

func vBytes(name string, n int) []byte {
	src := vVec.Bytes[vUnique(name)]
	b := make([]byte, n)
	for i := 0; i < n && i < len(src); i++ {
		b[i] = byte(src[i])
	}
	return b
}

// vHugeBytes: a zero slice of n bytes; the engine backs it by a virtual object
// (nothing materialised), natively it is a real allocation.
func vHugeBytes(n int) []byte { return make([]byte, n) }

// vKernelDropHandles: process death for the OS file systems. Natively the
// replay harness closes what it opened itself; nothing to do here.
func vKernelDropHandles() {}

func vLookup32(table []uint32, idx uint8) uint32 { return table[idx] }

// vGobFields lists the exported fields (name and type) of the struct behind v:
// what encoding/gob matches by when it decodes a metadata file.
func vGobFields(v interface{}) string {
	t := reflect.TypeOf(v)
	if t.Kind() == reflect.Ptr {
		t = t.Elem()
	}
	out := ""
	for i := 0; i < t.NumField(); i++ {
		f := t.Field(i)
		if f.PkgPath == "" {
			out += f.Name + " " + f.Type.String() + ";"
		}
	}
	return out
}

func vAssume(b bool) {
	if !b {
		panic(vAssumeFailed{})
	}
}

func vAssert(b bool, msg string) {
	if !b {
		vMu.Lock()
		vFailures = append(vFailures, msg)
		vMu.Unlock()
	}
}

func vExpect(b bool, msg string) { vAssert(b, msg) }

func vCover(label string) { vMu.Lock(); vCovers[label] = true; vMu.Unlock() }
func vObserve(label string, x uint64) {
	vMu.Lock()
	vObs = append(vObs, fmt.Sprintf("%s=%d", label, x))
	vMu.Unlock()
}
func vObserveBytes(label string, b []byte) {
	vMu.Lock()
	vObs = append(vObs, fmt.Sprintf("%s=%x", label, b))
	vMu.Unlock()
}
func vLog(msg string)              {}
func vRecord(name string, val int) {}

// vRecorded returns the i-th value recorded under name by the engine on the
// counterexample path (-1 if there is none).
func vRecorded(name string, i int) int {
	l := vVec.Records[name]
	if i < len(l) {
		return int(l[i])
	}
	return -1
}
func vAnd(a, b bool) bool     { return a && b }
func vOr(a, b bool) bool      { return a || b }
func vNot(a bool) bool        { return !a }
func vImplies(a, b bool) bool { return !a || b }
func vIteU64(c bool, a, b uint64) uint64 {
	if c {
		return a
	}
	return b
}
func vEqBytes(a, b []byte) bool      { return bytes.Equal(a, b) }
func vIsNil(b []byte) bool           { return b == nil }
func vCase() int                     { return vVec.Case }
func vSymbolic() bool                { return false }
func vFlag(name string, val int)     {}
func vCounter(name string) int64     { return 0 }
func vCounterAdd(name string, d int) {}
func vKill()                         { panic(vAssumeFailed{}) }
func vTag(b []byte, tag string)      {}
func vTagOf(b []byte) string         { return "" }
func vSameObject(a, b []byte) bool {
	return cap(a) > 0 && cap(b) > 0 && &a[:cap(a)][cap(a)-1] == &b[:cap(b)][cap(b)-1]
}
func vReachable(root interface{}, b []byte) bool { return false }

// ---- native deterministic scheduler (replay of engine schedules) ----
// Threads are goroutines that run one at a time; control changes hands only at
// vYield (and at thread start/exit), in the order recorded by the engine.

type vThread struct {
	id   int
	wake chan struct{}
	done bool
}

var (
	vThreads     []*vThread
	vCur         *vThread
	vSchedIdx    int
	vYieldCh     = make(chan struct{})
	vCrashRaised interface{}
)

func vGo(f func()) {
	t := &vThread{id: len(vThreads) + 1, wake: make(chan struct{})}
	vThreads = append(vThreads, t)
	go func() {
		<-t.wake
		defer func() {
			if r := recover(); r != nil {
				if strings.HasSuffix(fmt.Sprintf("%T", r), "vCrashSignal") {
					// process death raised inside a thread: all threads stop, vJoin re-raises it
					vCrashRaised = r
				} else {
					vMu.Lock()
					vFailures = append(vFailures, fmt.Sprintf("panic in thread %d: %v", t.id, r))
					vMu.Unlock()
				}
			}
			t.done = true
			vYieldCh <- struct{}{}
		}()
		f()
	}()
}

func vYield() {
	t := vCur
	if t == nil {
		return
	}
	vYieldCh <- struct{}{}
	<-t.wake
}

func vJoin() {
	for {
		var cands []*vThread
		for _, t := range vThreads {
			if !t.done {
				cands = append(cands, t)
			}
		}
		if len(cands) == 0 {
			break
		}
		pick := cands[0]
		if len(cands) > 1 && vSchedIdx < len(vVec.Sched) {
			want := int(vVec.Sched[vSchedIdx])
			vSchedIdx++
			for _, t := range cands {
				if t.id == want {
					pick = t
				}
			}
		}
		vCur = pick
		pick.wake <- struct{}{}
		<-vYieldCh
		if vCrashRaised != nil {
			// the other threads stay parked for ever (the process is dead)
			r := vCrashRaised
			vCrashRaised = nil
			vCur = nil
			vThreads = nil
			panic(r)
		}
	}
	vCur = nil
	vThreads = nil
}

func vLiveThreads() int { return 1 }
func vThreadID() int    { return 0 }
func vHeldLocks() int   { return 0 }

// ---- native realisation of the solver's hash assignment ----
// The engine treats hash.Sum32WithSeed as an uninterpreted function. A replay
// has to use real keys: the last aligned 4-byte block of a key is solved so
// that the real MurmurHash3 (pinned seed) equals the model's hash value. Block
// mix and finaliser of MurmurHash3 are bijections, so a solution always exists.

func vInv32(a uint32) uint32 { // modular inverse of an odd number mod 2^32
	x := a
	for i := 0; i < 5; i++ {
		x *= 2 - a*x
	}
	return x
}

func vRotr(x uint32, r uint) uint32 { return x>>r | x<<(32-r) }
func vRotl(x uint32, r uint) uint32 { return x<<r | x>>(32-r) }

func vFixHash(k []byte) {
	n := len(k)
	if n < 4 || n%4 != 0 {
		return
	}
	var target uint32
	found := false
	for _, h := range vVec.Hashes {
		if len(h.Key) != n {
			continue
		}
		same := true
		for i := range k {
			if uint64(k[i]) != h.Key[i] {
				same = false
				break
			}
		}
		if same {
			target, found = h.H, true
		}
	}
	if !found {
		return
	}
	// a key of the same hash class whose bytes cannot be adjusted (length not a multiple
	// of four) dictates the class's real hash value
	for _, h := range vVec.Hashes {
		if h.H == target && (len(h.Key) < 4 || len(h.Key)%4 != 0) {
			kb := make([]byte, len(h.Key))
			for i := range kb {
				kb[i] = byte(h.Key[i])
			}
			target = vRealHash(kb, vVec.Seed)
			break
		}
	}
	const c1, c2 = 0xcc9e2d51, 0x1b873593
	// state before the last block
	h1 := vVec.Seed
	for i := 0; i+4 <= n-4; i += 4 {
		k1 := uint32(k[i]) | uint32(k[i+1])<<8 | uint32(k[i+2])<<16 | uint32(k[i+3])<<24
		k1 *= c1
		k1 = vRotl(k1, 15)
		k1 *= c2
		h1 ^= k1
		h1 = vRotl(h1, 13)
		h1 = h1*5 + 0xe6546b64
	}
	// invert the finaliser
	h := target
	h ^= h >> 16
	h *= vInv32(0xc2b2ae35)
	h ^= h>>13 ^ h>>26
	h *= vInv32(0x85ebca6b)
	h ^= h >> 16
	h ^= uint32(n)
	// invert the block step
	x := (h - 0xe6546b64) * vInv32(5)
	x = vRotr(x, 13)
	km := x ^ h1
	k1 := vRotr(km*vInv32(c2), 15) * vInv32(c1)
	k[n-4], k[n-3], k[n-2], k[n-1] = byte(k1), byte(k1>>8), byte(k1>>16), byte(k1>>24)
}

// vRealHash is MurmurHash3_x86_32 (same algorithm as internal/hash), used by
// replays to compute the hash a non-adjustable key really has.
func vRealHash(data []byte, seed uint32) uint32 {
	const c1, c2 = 0xcc9e2d51, 0x1b873593
	h := seed
	n := len(data)
	for len(data) >= 4 {
		k := uint32(data[0]) | uint32(data[1])<<8 | uint32(data[2])<<16 | uint32(data[3])<<24
		data = data[4:]
		k *= c1
		k = vRotl(k, 15)
		k *= c2
		h ^= k
		h = vRotl(h, 13)
		h = h*5 + 0xe6546b64
	}
	var k uint32
	if len(data) >= 3 {
		k ^= uint32(data[2]) << 16
	}
	if len(data) >= 2 {
		k ^= uint32(data[1]) << 8
	}
	if len(data) >= 1 {
		k ^= uint32(data[0])
		k *= c1
		k = vRotl(k, 15)
		k *= c2
		h ^= k
	}
	h ^= uint32(n)
	h ^= h >> 16
	h *= 0x85ebca6b
	h ^= h >> 13
	h *= 0xc2b2ae35
	h ^= h >> 16
	return h
}
