package pogreb

import "github.com/akrylysov/pogreb/fs"

// Inductive-step harnesses (C01, C11): the index pre-state is not produced by a
// history. It is written directly, through the real bucket/segment code, as an
// ARBITRARY state satisfying the representation invariant of the linear-hashing
// index within a size bound:
//
//   I1 numBuckets = 2^level + splitBucketIdx, splitBucketIdx < 2^level, the main
//      file holds exactly numBuckets buckets
//   I2 every chain is acyclic, its overflow buckets lie in the overflow file, are
//      reached from exactly one place and are not on the free list
//   I3 inside a bucket the used slots are a prefix (any bucket of a chain, also a
//      middle one, may be partially filled or empty: deletes leave holes)
//   I4 a used slot sits in the chain bucketIndex(slot.hash) names, slot.hash is
//      the hash of the key of the record it points to, sizes/offset match it
//   I5 no two used slots point to records with the same key; numKeys = number of
//      used slots
//
// One public operation is run from that state; afterwards the map semantics
// (Get/Has/Count of every key), a full Items scan, and the invariant itself are
// checked. Inv(s) ∧ step ⇒ Inv(s') ∧ correct answers covers histories of any
// length that stay inside the size bound (buckets, chain length, keys), for every
// hash layout and content.

const stepVlen = 2

// buildIndexState writes an arbitrary index state; shape (chain lengths, fill
// counts) is forked, hashes / contents are symbolic.
func buildIndexState(db *DB, r *refMap, level uint8, split uint32, K, maxChain int, freeBuckets int) {
	buildIndexStateF(db, r, level, split, K, maxChain, freeBuckets, nil)
}

// fills != nil: fill counts are taken from this list (representatives at the real
// slotsPerBucket) instead of every value 0..slotsPerBucket.
func buildIndexStateF(db *DB, r *refMap, level uint8, split uint32, K, maxChain int, freeBuckets int, fills []int) {
	idx := db.index
	nb := (uint32(1) << level) + split
	for idx.numBuckets < nb {
		_, err := idx.main.extend(bucketSize)
		vAssert(err == nil, "step.build.extend")
		idx.numBuckets++
	}
	idx.level, idx.splitBucketIdx = level, split
	next := 0
	for b := uint32(0); b < nb; b++ {
		L := 1 + vChoice("chain", maxChain)
		handles := make([]*bucketHandle, L)
		handles[0] = &bucketHandle{file: idx.main, offset: bucketOffset(b)}
		for j := 1; j < L; j++ {
			off, err := idx.overflow.extend(bucketSize)
			vAssert(err == nil, "step.build.extend")
			handles[j] = &bucketHandle{file: idx.overflow, offset: off}
			handles[j-1].next = off
		}
		for j := 0; j < L; j++ {
			room := K - next
			if room > slotsPerBucket {
				room = slotsPerBucket
			}
			fill := 0
			if fills == nil {
				fill = vChoice("fill", room+1)
			} else {
				nopt := 0
				for _, f := range fills {
					if f <= room {
						nopt++
					}
				}
				fill = fills[vChoice("fill", nopt)]
			}
			for s := 0; s < fill; s++ {
				i := next
				next++
				v := vBytes("val", stepVlen)
				segID, off, err := db.datalog.put(r.keys[i], v)
				vAssert(err == nil, "step.build.record")
				h := db.hash(r.keys[i])
				vAssume(idx.bucketIndex(h) == b)
				if fills != nil {
					// real slotsPerBucket: full hashes pairwise distinct (collisions are explored at 2)
					ok := true
					for p := 0; p < i; p++ {
						ok = vAnd(ok, h != db.hash(r.keys[p]))
					}
					vAssume(ok)
				}
				handles[j].slots[s] = slot{hash: h, segmentID: segID, keySize: uint16(len(r.keys[i])), valueSize: uint32(len(v)), offset: off}
				r.present[i] = true
				r.val[i] = v
			}
		}
		for j := L - 1; j >= 0; j-- {
			vAssert(handles[j].write() == nil, "step.build.write")
		}
	}
	idx.numKeys = uint32(next)
	for f := 0; f < freeBuckets; f++ {
		off, err := idx.overflow.extend(bucketSize)
		vAssert(err == nil, "step.build.extend")
		// a freed bucket keeps whatever it held
		junk := &bucketHandle{file: idx.overflow, offset: off}
		junk.slots[0] = slot{hash: vU32("junkhash"), segmentID: 1, keySize: 8, valueSize: 2, offset: 512}
		junk.next = off
		vAssert(junk.write() == nil, "step.build.write")
		idx.freeBucketOffs = append(idx.freeBucketOffs, off)
	}
}

// vIndexInvariant re-establishes I1-I5 on the current state by walking the files.
func vIndexInvariant(db *DB, r *refMap, tag string) {
	idx := db.index
	vAssert(idx.numBuckets == (uint32(1)<<idx.level)+idx.splitBucketIdx, tag+".inv.numBuckets=2^level+split")
	vAssert(idx.splitBucketIdx < uint32(1)<<idx.level, tag+".inv.split<2^level")
	vAssert(idx.main.size == int64(headerSize)+int64(bucketSize)*int64(idx.numBuckets), tag+".inv.main-file-size")
	var seenOff []int64
	var seen [vMaxKeys]int
	total := uint32(0)
	for b := uint32(0); b < idx.numBuckets; b++ {
		h := bucketHandle{file: idx.main, offset: bucketOffset(b)}
		for depth := 0; ; depth++ {
			vAssert(depth < 16, tag+".inv.chain-acyclic")
			if depth >= 16 {
				return
			}
			if err := h.read(); err != nil {
				vAssert(false, tag+".inv.bucket-readable")
				return
			}
			used := true
			for s := 0; s < slotsPerBucket; s++ {
				sl := h.slots[s]
				if sl.offset == 0 {
					used = false
					continue
				}
				vAssert(used, tag+".inv.used-slots-are-a-prefix")
				total++
				vAssert(idx.bucketIndex(sl.hash) == b, tag+".inv.slot-in-its-hash-bucket")
				key, err := db.datalog.readKey(sl)
				if err != nil {
					vAssert(false, tag+".inv.slot-points-to-a-record")
					continue
				}
				vAssert(sl.hash == db.hash(key), tag+".inv.slot-hash-is-key-hash")
				matched := false
				for i := 0; i < r.n; i++ {
					if len(key) == len(r.keys[i]) && len(key) > 0 && key[0] == r.keys[i][0] {
						matched = true
						seen[i]++
						vAssert(vEqBytes(key, r.keys[i]), tag+".inv.slot-key")
					}
				}
				vAssert(matched, tag+".inv.slot-key-known")
			}
			if h.next == 0 {
				break
			}
			off := h.next
			vAssert(off >= int64(headerSize) && off+int64(bucketSize) <= idx.overflow.size && (off-int64(headerSize))%int64(bucketSize) == 0, tag+".inv.overflow-offset-valid")
			for _, o := range seenOff {
				vAssert(o != off, tag+".inv.overflow-bucket-reached-once")
			}
			for _, o := range idx.freeBucketOffs {
				vAssert(o != off, tag+".inv.used-bucket-not-on-free-list")
			}
			seenOff = append(seenOff, off)
			h = bucketHandle{file: idx.overflow, offset: off}
		}
	}
	for i, o := range idx.freeBucketOffs {
		for j := 0; j < i; j++ {
			vAssert(idx.freeBucketOffs[j] != o, tag+".inv.free-list-has-no-duplicates")
		}
	}
	for i := 0; i < r.n; i++ {
		if r.present[i] {
			vAssert(seen[i] == 1, tag+".inv.one-slot-per-live-key")
		} else {
			vAssert(seen[i] == 0, tag+".inv.no-slot-for-absent-key")
		}
	}
	vAssert(idx.numKeys == total, tag+".inv.numKeys=used-slots")
}

// case%nl selects (level, split); (case/nl)%2 the operation (put, delete);
// case/(2*nl) the key it is applied to (K+1 keys, the last one always absent).
var stepLevels = [][2]uint32{{0, 0}, {1, 0}, {1, 1}, {2, 0}, {2, 1}, {2, 3}}

func hStep(K, maxChain, nl, freeBuckets int, scan bool) {
	c := vCase()
	lv := stepLevels[c%nl]
	opc := (c / nl) % 2 // 0 put, 1 delete
	k := c / (2 * nl)
	db, err := Open("step", smallOpts(fs.Mem, 4, 10+8+stepVlen))
	vAssert(err == nil, "step.open")
	if err != nil {
		return
	}
	r := newRef(K+1, 8) // at least one key is absent
	buildIndexState(db, r, uint8(lv[0]), lv[1], K, maxChain, freeBuckets)
	vIndexInvariant(db, r, "step.pre") // the builder establishes the invariant
	nbBefore := db.index.numBuckets
	if scan {
		// C11: a scan of an arbitrary state, no operation
		checkItems(db, r, "C11.step")
		vCover("C11.step.done")
		return
	}
	if k >= r.n {
		return
	}
	applyOp(db, r, opc, k, stepVlen, "C01.step")
	checkReads(db, r, "C01.step")
	vIndexInvariant(db, r, "C01.step")
	checkItems(db, r, "C01.step")
	if db.index.numBuckets > nbBefore {
		vCover("C01.step.split")
	}
	if len(db.index.freeBucketOffs) > freeBuckets {
		vCover("C01.step.split-freed-overflow-buckets")
	}
	vCover("C01.step.done")
}

// quick: <= 3 main buckets, chains of <= 2 buckets, <= 3 keys + 1 absent
func H_C01_step_q() { hStep(3, 2, 3, 0, false) }

// one junk bucket on the free list (re-used by the next overflow)
func H_C01_step_f() { hStep(3, 2, 3, 1, false) }

// thorough: chains of <= 3 buckets (<= 3 main buckets, <= 3 keys + 1 absent), and
// <= 5 main buckets with <= 4 keys + 1 absent (chains of <= 2 buckets)
func H_C01_step_c3() { hStep(3, 3, 3, 1, false) }

// not registered: 4-5 main buckets with 4 stored keys exceed 300k paths and 55 minutes per case
func H_C01_step_w() { hStep(4, 2, 5, 0, false) }

func H_C11_step_q() { hStep(4, 3, 3, 0, true) }
func H_C11_step_t() { hStep(4, 2, 5, 1, true) }

// hStepReal: the inductive step at the REAL slotsPerBucket (31). Fill counts of
// the buckets are taken from a list of representatives ({0, 1, 30, 31}); the
// operation is applied to the key in the first / last used slot of the state, to
// the 31st and 32nd stored key, or to an absent key. Full hashes are pairwise
// distinct (collisions are explored at slotsPerBucket = 2). When the operation
// makes the index split, the hash bit that decides which keys move is fixed by a
// pattern (otherwise every subset of up to 62 keys would be a path of its own):
// 0 all stay, 1 all move, 2 alternate, 3 the first 32 stay and the rest move.
// case = lv + nl*(op + 2*(sel + 5*pat)).
func hStepReal(nl, maxChain int, fills []int, K int) { hStepRealT(nl, maxChain, fills, K, "C01.real") }

func hStepRealT(nl, maxChain int, fills []int, K int, tag string) {
	c := vCase()
	lv := stepLevels[c%nl]
	opc := (c / nl) % 2
	sel := (c / (2 * nl)) % 5
	pat := c / (10 * nl)
	db, err := Open("stepreal", smallOpts(fs.Mem, 40, 10+8+stepVlen))
	vAssert(err == nil, "step.open")
	if err != nil {
		return
	}
	r := newRef(K+1, 8)
	buildIndexStateF(db, r, uint8(lv[0]), lv[1], K, maxChain, 0, fills)
	stored := int(db.index.numKeys)
	r.n = stored + 1 // exactly one absent key
	k := stored
	switch sel {
	case 0:
		k = 0
	case 1:
		k = stored - 1
	case 2:
		k = 30
	case 3:
		k = 31
	}
	if k < 0 || (sel < 4 && k >= stored) {
		return
	}
	hk := db.hash(r.keys[stored])
	ok := true
	for i := 0; i < stored; i++ {
		h := db.hash(r.keys[i])
		ok = vAnd(ok, h != hk)
		bit := (h >> lv[0]) & 1
		switch pat {
		case 0:
			ok = vAnd(ok, bit == 0)
		case 1:
			ok = vAnd(ok, bit == 1)
		case 2:
			ok = vAnd(ok, bit == uint32(i%2))
		case 3:
			if i < 32 {
				ok = vAnd(ok, bit == 0)
			} else {
				ok = vAnd(ok, bit == 1)
			}
		}
	}
	vAssume(ok)
	nbBefore := db.index.numBuckets
	applyOp(db, r, opc, k, stepVlen, tag)
	checkReads(db, r, tag)
	vIndexInvariant(db, r, tag)
	checkItems(db, r, tag)
	if db.index.numBuckets > nbBefore {
		vCover(tag + ".split")
		if db.index.overflow.size > int64(headerSize)+int64(bucketSize)*int64(maxChain-1) {
			vCover(tag + ".split-rebuilt-a-chain-with-overflow")
		}
	}
	if stored >= 31 {
		vCover(tag + ".full-bucket")
	}
	vCover(tag + ".done")
}

// one main bucket (level 0), chains of <= 2 buckets
func H_C01_step_real() { hStepReal(1, 2, []int{0, 1, 30, 31}, 64) }

// quick: buckets with 1 or 31 slots, <= 33 keys (31+1, 1+31, 31, 1+1, 1)
func H_C01_step_real_q() { hStepReal(1, 2, []int{1, 31}, 33) }

// C11 (slotsPerBucket scaled to 2): one main bucket whose chain of <= 3 buckets
// holds <= 6 keys in every fill pattern; a Put of an absent key splits it with
// all / none / alternate keys staying, so that a chain of up to 3 buckets (two
// earlier buckets in the slot writer) is rebuilt; then a full scan.
func H_C11_step_chain() { hStepRealT(1, 3, []int{0, 1, 2}, 6, "C11.chain") }

// zeroBucketFile: an index file of any size whose every bucket reads as empty;
// writes and truncations are accepted and forgotten.
type zeroBucketFile struct {
	fs.File
	writes int
}

func (f *zeroBucketFile) Slice(start, end int64) ([]byte, error) {
	return make([]byte, bucketSize), nil
}
func (f *zeroBucketFile) WriteAt(p []byte, off int64) (int, error) { f.writes++; return len(p), nil }
func (f *zeroBucketFile) Truncate(size int64) error                { return nil }

// H_C01_addr: the address arithmetic of linear hashing for EVERY level and split
// pointer (symbolic level <= 30, symbolic split pointer < 2^level, symbolic hash):
// bucketIndex stays below numBuckets; the real split() advances (level, split
// pointer, numBuckets) so that numBuckets = 2^level + split still holds; and a
// hash that did not address the split bucket keeps its bucket, while one that did
// either stays or moves to exactly the newly added bucket. The index files are
// stubs whose buckets read as empty (the step harnesses cover the data movement).
func H_C01_addr() {
	level := vU8("level")
	split := vU32("split")
	h := vU32("hash")
	vAssume(level <= 30)
	vAssume(split < uint32(1)<<level)
	nb := (uint32(1) << level) + split
	mainStub := &zeroBucketFile{}
	idx := &index{
		opts:           &Options{},
		main:           &file{File: mainStub, size: int64(headerSize) + int64(bucketSize)*int64(nb)},
		overflow:       &file{File: &zeroBucketFile{}, size: int64(headerSize)},
		level:          level,
		numBuckets:     nb,
		splitBucketIdx: split,
	}
	b0 := idx.bucketIndex(h)
	vAssert(b0 < nb, "C01.addr.bucket-index-below-numBuckets")
	// a key is found where it was inserted only if bucketIndex is a function of (hash, level, split)
	vAssert(idx.bucketIndex(h) == b0, "C01.addr.deterministic")
	err := idx.split()
	vAssert(err == nil, "C01.addr.split.err")
	if err != nil {
		return
	}
	vAssert(idx.numBuckets == nb+1, "C01.addr.split-adds-one-bucket")
	vAssert(idx.numBuckets == (uint32(1)<<idx.level)+idx.splitBucketIdx, "C01.addr.numBuckets=2^level+split")
	vAssert(idx.splitBucketIdx < uint32(1)<<idx.level, "C01.addr.split<2^level")
	vAssert(idx.main.size == int64(headerSize)+int64(bucketSize)*int64(nb+1), "C01.addr.main-file-grew-by-one-bucket")
	b1 := idx.bucketIndex(h)
	vAssert(b1 < idx.numBuckets, "C01.addr.bucket-index-below-numBuckets-after-split")
	if b0 != split {
		vAssert(b1 == b0, "C01.addr.keys-of-other-buckets-do-not-move")
	} else {
		vAssert(b1 == b0 || b1 == nb, "C01.addr.keys-of-the-split-bucket-stay-or-move-to-the-new-bucket")
		if b1 == nb {
			vCover("C01.addr.moved")
		}
	}
	if idx.level > level {
		vCover("C01.addr.level-advanced")
	}
	vCover("C01.addr.done")
}
