package pogreb

import "github.com/akrylysov/pogreb/fs"

func vFill(b []byte, x byte) {
	for i := range b {
		b[i] = x
	}
}

// hC14: ownership of byte slices crossing the API, on fs.Mem.
// (1) provenance on the engine's heap graph, for every explored path: the
// backing array of a slice returned by Get/GetAppend/Next is not reachable from
// the DB (which includes the FileSystem's file buffers), and after Put/Delete
// return the DB does not reach the caller's key/value arrays;
// (2) semantic double check (also meaningful natively): the caller scribbles
// over everything it owns, later operations run, and contents are compared again.
// records per segment (1: every Put rolls the log over, so that reads hit sealed,
// non-current segments)
var c14SegRecords = 2

func hC14(n, L, vlen int) { hC14on(fs.Mem, "c14", n, L, vlen) }

func hC14on(fsys fs.FileSystem, dir string, n, L, vlen int) {
	opts := smallOpts(fsys, c14SegRecords, 10+8+vlen)
	db, err := Open(dir, opts)
	vAssert(err == nil, "C14.open")
	if err != nil {
		return
	}
	r := newRef(n, 8)
	// expected contents are kept in private copies: the caller's own buffers get overwritten below
	var want [vMaxKeys][]byte
	for step := 0; step < L; step++ {
		var code int
		if step == 0 {
			code = vCase() % (2*n + 1)
		} else {
			code = vChoice("op", 2*n+1)
		}
		op, k := decodeOp(code, n)
		switch op {
		case 0:
			key := append([]byte{}, r.keys[k]...)
			val := vBytes("val", vlen)
			want[k] = append([]byte{}, val...)
			r.present[k] = true
			vAssert(db.Put(key, val) == nil, "C14.put")
			vAssert(!vReachable(db, key), "C14.put.db-keeps-no-reference-to-key")
			vAssert(!vReachable(db, val), "C14.put.db-keeps-no-reference-to-value")
			vFill(key, 0xEE)
			vFill(val, 0xEE)
		case 1:
			key := append([]byte{}, r.keys[k]...)
			vAssert(db.Delete(key) == nil, "C14.delete")
			vAssert(!vReachable(db, key), "C14.delete.db-keeps-no-reference-to-key")
			vFill(key, 0xEE)
			r.present[k] = false
			want[k] = nil
		case 2:
			_, err := db.Compact()
			vAssert(err == nil, "C14.compact")
		}
	}
	// reads: collect everything the API hands out
	var got, app [vMaxKeys][]byte
	for i := 0; i < n; i++ {
		key := append([]byte{}, r.keys[i]...)
		g, err := db.Get(key)
		vAssert(err == nil, "C14.get.err")
		vAssert(!vReachable(db, key), "C14.get.db-keeps-no-reference-to-key")
		got[i] = g
		if g != nil {
			vAssert(!vReachable(db, g), "C14.get.result-not-owned-by-db-or-file")
			if r.present[i] && len(want[i]) == 0 {
				vCover("C14.empty-value-returned")
			}
		}
		small := make([]byte, 1, 1) // insufficient capacity
		small[0] = 0x11
		a, err := db.GetAppend(key, small)
		vAssert(err == nil, "C14.getappend.err")
		if a != nil {
			vAssert(!vReachable(db, a), "C14.getappend.result-not-owned-by-db-or-file")
		}
		nb, err := db.GetAppend(key, nil)
		vAssert(err == nil, "C14.getappend-nil.err")
		if nb != nil {
			vAssert(!vReachable(db, nb), "C14.getappend-nil.result-not-owned-by-db-or-file")
		}
		roomy := make([]byte, 1, 64)
		roomy[0] = 0x22
		b, err := db.GetAppend(key, roomy)
		vAssert(err == nil, "C14.getappend2.err")
		if b != nil {
			vAssert(vSameObject(b, roomy), "C14.getappend.appends-into-callers-buffer")
			vAssert(!vReachable(db, b), "C14.getappend2.result-not-owned-by-db-or-file")
		}
		app[i] = a
		vFill(key, 0xEE)
	}
	var itk, itv [2 * vMaxKeys][]byte
	nit := 0
	it := db.Items()
	for nit < 2*vMaxKeys {
		k, v, err := it.Next()
		if err == ErrIterationDone {
			break
		}
		vAssert(err == nil, "C14.next.err")
		if err != nil {
			return
		}
		vAssert(!vReachable(db, k), "C14.next.key-not-owned-by-db-or-file")
		vAssert(!vReachable(db, v), "C14.next.value-not-owned-by-db-or-file")
		// key and value are separate pieces of memory: appending to one cannot touch the other
		if cap(k) > 0 && cap(v) > 0 {
			vAssert(!vSameObject(k, v), "C14.next.key-and-value-do-not-share-memory")
		}
		// what the iterator keeps queued for later calls must not be file-owned memory either
		for _, q := range it.queue {
			vAssert(!vReachable(db, q.key) && !vReachable(db, q.value), "C14.next.queued-items-not-owned-by-db-or-file")
		}
		for j := 0; j < nit; j++ {
			if cap(k) > 0 && cap(itk[j]) > 0 {
				vAssert(!vSameObject(k, itk[j]) && !vSameObject(k, itv[j]), "C14.next.results-of-different-calls-do-not-share-memory")
			}
		}
		itk[nit], itv[nit] = k, v
		nit++
	}
	// private copies of what was returned
	var gotC, appC [vMaxKeys][]byte
	for i := 0; i < n; i++ {
		gotC[i] = append([]byte{}, got[i]...)
		appC[i] = append([]byte{}, app[i]...)
	}
	// later history: overwrite everything, compact the old segments away, close
	for i := 0; i < n; i++ {
		nv := vBytes("nv", vlen)
		vAssert(db.Put(append([]byte{}, r.keys[i]...), nv) == nil, "C14.later.put")
	}
	_, err = db.Compact()
	vAssert(err == nil, "C14.later.compact")
	vAssert(db.Close() == nil, "C14.later.close")
	for i := 0; i < n; i++ {
		if r.present[i] {
			vAssert(got[i] != nil && vEqBytes(got[i], want[i]), "C14.get.result-unchanged-by-later-history")
			vAssert(vEqBytes(got[i], gotC[i]), "C14.get.result-stable")
			vAssert(len(app[i]) == 1+len(want[i]) && vEqBytes(app[i][1:], want[i]), "C14.getappend.result-unchanged-by-later-history")
		} else {
			vAssert(got[i] == nil, "C14.get.absent")
		}
	}
	// the caller scribbles over the slices it was given: stored data must not change
	db, err = Open(dir, opts)
	vAssert(err == nil, "C14.reopen")
	if err != nil {
		return
	}
	var cur [vMaxKeys][]byte
	for i := 0; i < n; i++ {
		g, _ := db.Get(r.keys[i])
		cur[i] = append([]byte{}, g...)
	}
	it = db.Items()
	for j := 0; j < 2*vMaxKeys; j++ {
		k, v, err := it.Next()
		if err != nil {
			break
		}
		vFill(k, 0xEE)
		vFill(v, 0xEE)
	}
	for i := 0; i < n; i++ {
		g, err := db.Get(r.keys[i])
		vAssert(err == nil, "C14.final.get.err")
		vFill(g, 0xDD)
		g2, err := db.Get(r.keys[i])
		vAssert(err == nil && vEqBytes(g2, cur[i]), "C14.stored-data-unchanged-when-caller-overwrites-returned-slices")
	}
	_ = itk
	_ = itv
	_ = appC
	vCover("C14.done")
}

func H_C14_q() { hC14(2, 2, 2) }

// empty values: a zero-length result must not be a window into file-owned memory either
func H_C14_empty()     { hC14(2, 2, 0) }
func H_C14_emptymmap() { hC14on(fs.OSMMap, "c14emmap", 2, 2, 0) }

// the memory-mapped and the plain OS file system over the kernel model: a result
// that aliases a mapping is reachable from the DB, and reading it after Close
// (munmap) is a fault obligation
func H_C14_mmap() { hC14on(fs.OSMMap, "c14mmap", 2, 2, 2) }
func H_C14_os()   { hC14on(fs.OS, "c14os", 2, 2, 2) }
func H_C14_t()    { hC14(2, 3, 3) }

// one record per segment: results of Get/GetAppend/Next come from sealed segments
func H_C14_roll()     { c14SegRecords = 1; hC14(2, 2, 2) }
func H_C14_rollmmap() { c14SegRecords = 1; hC14on(fs.OSMMap, "c14rmmap", 2, 2, 2) }
