package pogreb

import (
	"errors"
	"os"

	"github.com/akrylysov/pogreb/fs"
)

var errInjected = errors.New("injected I/O error")

// errFS wraps a FileSystem: counts renames (recovery moves the index files
// away first) and, when armed, fails one mutating call (symbolic choice) with
// an I/O error.
type errFS struct {
	inner    fs.FileSystem
	renames  int
	armed    bool
	injected bool
	// failWrite: sequential Write calls (gob payloads) are injection points too
	failWrite bool
	// shortWrite: the failing WriteAt writes a 7-byte prefix before it reports the error
	shortWrite bool
	segsOnly   bool // only segment files are injection points
}

func (e *errFS) fail() bool {
	if !e.armed || e.injected {
		return false
	}
	if vChoice("ioerr", 2) == 1 {
		e.injected = true
		return true
	}
	return false
}

func (e *errFS) OpenFile(name string, flag int, perm os.FileMode) (fs.File, error) {
	f, err := e.inner.OpenFile(name, flag, perm)
	if err != nil {
		return nil, err
	}
	seg := len(name) > 4 && name[len(name)-4:] == segmentExt
	return &errFile{File: f, e: e, seg: seg}, nil
}
func (e *errFS) Stat(name string) (os.FileInfo, error) { return e.inner.Stat(name) }
func (e *errFS) Remove(name string) error              { return e.inner.Remove(name) }
func (e *errFS) Rename(o, n string) error {
	e.renames++
	return e.inner.Rename(o, n)
}
func (e *errFS) ReadDir(name string) ([]os.DirEntry, error) { return e.inner.ReadDir(name) }
func (e *errFS) CreateLockFile(name string, perm os.FileMode) (fs.LockFile, bool, error) {
	return e.inner.CreateLockFile(name, perm)
}
func (e *errFS) MkdirAll(path string, perm os.FileMode) error { return e.inner.MkdirAll(path, perm) }

type errFile struct {
	fs.File
	e     *errFS
	seg   bool
	wrote bool
}

func (f *errFile) WriteAt(p []byte, off int64) (int, error) {
	if (f.seg || !f.e.segsOnly) && f.e.fail() {
		if f.e.shortWrite && len(p) > 7 {
			n, _ := f.File.WriteAt(p[:7], off)
			return n, errInjected
		}
		return 0, errInjected
	}
	return f.File.WriteAt(p, off)
}

// Only the first sequential Write on a handle is an injection point: the engine's
// gob model writes a metadata file with one Write, the real encoder with several,
// and the numbering of the injection points must agree in a native replay.
func (f *errFile) Write(p []byte) (int, error) {
	if f.e.failWrite && !f.wrote {
		f.wrote = true
		if f.e.fail() {
			return 0, errInjected
		}
	}
	return f.File.Write(p)
}
func (f *errFile) Truncate(size int64) error {
	if (f.seg || !f.e.segsOnly) && f.e.fail() {
		return errInjected
	}
	return f.File.Truncate(size)
}

func vIsLocked(err error) bool {
	if err == nil {
		return false
	}
	if err == errLocked {
		return true
	}
	if u, ok := err.(interface{ Unwrap() error }); ok {
		return u.Unwrap() == errLocked
	}
	return false
}

type vDirSnap struct {
	names []string
	sizes []int64
}

func vSnapDir(fsys fs.FileSystem) vDirSnap {
	var s vDirSnap
	ents, err := fsys.ReadDir(".")
	vAssert(err == nil, "harness.readdir")
	for _, e := range ents {
		s.names = append(s.names, e.Name())
		info, err := e.Info()
		sz := int64(-1)
		if err == nil {
			sz = info.Size()
		}
		s.sizes = append(s.sizes, sz)
	}
	// directory order is unspecified: sort by name
	for i := 1; i < len(s.names); i++ {
		for j := i; j > 0 && s.names[j] < s.names[j-1]; j-- {
			s.names[j], s.names[j-1] = s.names[j-1], s.names[j]
			s.sizes[j], s.sizes[j-1] = s.sizes[j-1], s.sizes[j]
		}
	}
	return s
}

func (a vDirSnap) equal(b vDirSnap) bool {
	if len(a.names) != len(b.names) {
		return false
	}
	for i := range a.names {
		if a.names[i] != b.names[i] || a.sizes[i] != b.sizes[i] {
			return false
		}
	}
	return true
}

// hC13open: sequences of sessions ending cleanly, by process death, or by an
// Open that fails with an I/O error inside recovery. The next successful Open
// runs recovery iff the last session did not complete Close, and always yields
// the acknowledged contents; a competing Open fails with the locked error and
// leaves the directory untouched.
func hC13open(nsess int) {
	n := 2
	vlen := 2
	rec := 10 + 8 + vlen
	dir := "c13"
	r := newRef(n, 8)
	unclean := false
	first := true
	for sess := 0; sess < nsess; sess++ {
		efs := &errFS{inner: fs.Mem}
		if unclean && vChoice("open-with-io-error", 2) == 1 {
			efs.armed = true
		}
		db, err := Open(dir, smallOpts(efs, 2, rec))
		efs.armed = false
		if efs.injected {
			vCover("C13.open-failed-with-io-error-in-recovery")
			if err == nil {
				// the error hit a call whose failure Open tolerates; treat as a normal session
				vAssert(false, "C13.harness.injected-error-ignored")
			}
			fs.VerifDropHandles() // the process gives up and exits
			unclean = true
			continue
		}
		vAssert(err == nil, "C13.open-succeeds")
		if err != nil {
			return
		}
		recovered := efs.renames > 0
		if !first {
			if unclean {
				vAssert(recovered, "C13.unclean-shutdown-is-recovered")
			} else {
				vAssert(!recovered, "C13.clean-shutdown-opens-without-recovery")
			}
		}
		first = false
		checkReads(db, r, "C13.contents")
		// a competing opener
		sub := db.opts.FileSystem
		before := vSnapDir(sub)
		db2, err2 := Open(dir, smallOpts(fs.Mem, 2, rec))
		vAssert(db2 == nil && vIsLocked(err2), "C13.competing-open-fails-with-locked")
		vAssert(before.equal(vSnapDir(sub)), "C13.competing-open-changes-nothing")
		checkReads(db, r, "C13.contents-after-competing-open")
		// some work
		code := vChoice("op", 2*n)
		op, k := decodeOp(code, n)
		applyOp(db, r, op, k, vlen, "C13.step")
		if vChoice("end", 2) == 0 {
			vAssert(db.Close() == nil, "C13.close")
			unclean = false
			vCover("C13.clean-end")
		} else {
			fs.VerifDropHandles()
			unclean = true
			vCover("C13.unclean-end")
		}
	}
	// final open always works and sees everything acknowledged
	db, err := Open(dir, smallOpts(fs.Mem, 2, rec))
	vAssert(err == nil, "C13.final-open")
	if err != nil {
		return
	}
	checkReads(db, r, "C13.final")
	vCover("C13.open.done")
}

func H_C13_open() { hC13open(3) }

// H_C13_closeerr: a session whose Close fails part-way (one write of Close fails
// with an I/O error - segment side file, index or database metadata; symbolic
// choice which) has not completed Close. The process then dies. The next Open
// must treat the directory as unclean (recovery runs) and present every
// acknowledged write; if Close returned nil the next Open runs no recovery.
func H_C13_closeerr() {
	n := 2
	vlen := 2
	rec := 10 + 8 + vlen
	efs := &errFS{inner: fs.Mem, failWrite: true}
	dir := "c13e"
	db, err := Open(dir, smallOpts(efs, 2, rec))
	vAssert(err == nil, "C13e.open")
	if err != nil {
		return
	}
	r := newRef(n, 8)
	// first session ends cleanly with one key: index.pmt on disk is stale for the second session
	applyOp(db, r, 0, 0, vlen, "C13e.s1")
	vAssert(db.Close() == nil, "C13e.s1.close")
	db, err = Open(dir, smallOpts(efs, 2, rec))
	vAssert(err == nil, "C13e.s2.open")
	if err != nil {
		return
	}
	for _, k := range []int{1, 0, 1} {
		applyOp(db, r, 0, k, vlen, "C13e.s2")
	}
	efs.armed = true
	cerr := db.Close()
	efs.armed = false
	fs.VerifDropHandles() // the process ends here either way
	efs2 := &errFS{inner: fs.Mem}
	db2, err := Open(dir, smallOpts(efs2, 2, rec))
	vAssert(err == nil, "C13e.next-open-succeeds")
	if err != nil {
		return
	}
	if cerr != nil {
		vCover("C13e.close-failed")
		vAssert(efs2.renames > 0, "C13e.session-whose-close-failed-is-recovered")
	} else {
		vAssert(efs2.renames == 0, "C13e.completed-close-is-not-recovered")
	}
	checkReads(db2, r, "C13e.contents")
	vCover("C13e.done")
}

// H_C13_race: DB level, fs.OS over the kernel model, lock-file system calls are
// scheduling points (engine flag lockYield): the owner's clean Close runs as one
// thread, a second opener's Open as another, every interleaving of their lock-file
// steps (stat/open/flock/fstat of the opener against unlink/close of the owner).
// The opener either fails with the locked error and leaves the directory alone,
// or succeeds - then the owner's session completed Close, so the Open must not
// have run recovery, and it sees the owner's contents.
func H_C13_race() {
	n := 2
	vlen := 2
	rec := 10 + 8 + vlen
	dir := "c13r"
	db, err := Open(dir, smallOpts(fs.OS, 2, rec))
	vAssert(err == nil, "C13r.open")
	if err != nil {
		return
	}
	r := newRef(n, 8)
	applyOp(db, r, 0, 0, vlen, "C13r.put")
	applyOp(db, r, 0, 1, vlen, "C13r.put")
	efs := &errFS{inner: fs.OS}
	var db2 *DB
	var err2 error
	var cerr error
	vFlag("lockYield", 1)
	vGo(func() { cerr = db.Close() })
	vGo(func() { db2, err2 = Open(dir, smallOpts(efs, 2, rec)) })
	vJoin()
	vFlag("lockYield", 0)
	vAssert(cerr == nil, "C13r.close.err")
	if err2 != nil {
		vAssert(vIsLocked(err2), "C13r.failed-open-reports-locked")
		vAssert(efs.renames == 0, "C13r.failed-open-changes-nothing")
		vCover("C13r.opener-rejected")
		// the directory is intact: a later Open succeeds without recovery
		efs3 := &errFS{inner: fs.OS}
		db3, err := Open(dir, smallOpts(efs3, 2, rec))
		vAssert(err == nil, "C13r.later-open-succeeds")
		if err != nil {
			return
		}
		vAssert(efs3.renames == 0, "C13r.clean-close-is-not-recovered")
		checkReads(db3, r, "C13r.later")
	} else {
		vCover("C13r.opener-acquired")
		vAssert(efs.renames == 0, "C13r.open-overlapping-a-clean-close-runs-no-recovery")
		checkReads(db2, r, "C13r.acquired")
	}
	vCover("C13r.done")
}
