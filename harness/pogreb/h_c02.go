package pogreb

import (
	"github.com/akrylysov/pogreb/fs"
)

func vExists(fsys fs.FileSystem, name string) bool {
	_, err := fsys.Stat(name)
	return err == nil
}

// vNoBackupFiles: recovery renames index/meta files to *.bac; a clean reopen never does.
func vDirNames(fsys fs.FileSystem) []string {
	ents, err := fsys.ReadDir(".")
	vAssert(err == nil, "harness.readdir")
	var names []string
	for _, e := range ents {
		names = append(names, e.Name())
	}
	return names
}

// hC02seq: histories with clean Close+Open inserted; after every reopen the
// contents equal the reference map, the lock was released by Close, and the
// reopen did not run recovery.
func hC02seq(n, prefix, L, vlen int) {
	opts := smallOpts(fs.Mem, 2, 10+8+vlen)
	dir := "c02"
	db, err := Open(dir, opts)
	vAssert(err == nil, "C02.open")
	if err != nil {
		return
	}
	sub := db.opts.FileSystem
	r := newRef(n, 8)
	for i := 0; i < prefix; i++ {
		applyOp(db, r, 0, i%n, vlen, "C02.prefix")
	}
	nops := 2*n + 2
	reopen := func(tag string) bool {
		vAssert(db.Close() == nil, tag+".close")
		vAssert(!vExists(sub, lockName), tag+".lock-released")
		vAssert(fs.VerifOpenHandles() == 0, tag+".no-open-handles-after-close")
		db, err = Open(dir, opts)
		vAssert(err == nil, tag+".reopen")
		if err != nil {
			return false
		}
		for _, nm := range vDirNames(sub) {
			vAssert(len(nm) < 4 || nm[len(nm)-4:] != recoveryBackupExt, tag+".no-recovery")
		}
		checkReads(db, r, tag)
		// the directory holds nothing but what the reopened database refers to, and
		// appends will go to the newest segment
		vCheckDirSoft(db, tag)
		vCheckLogInvariant(db, tag)
		return true
	}
	for step := 0; step < L; step++ {
		var code int
		if step == 0 {
			code = vCase() % (nops + 1)
		} else {
			code = vChoice("op", nops+1)
		}
		if code == nops {
			if !reopen("C02.mid") {
				return
			}
			vCover("C02.reopen-mid-history")
			continue
		}
		op, k := decodeOp(code, n)
		applyOp(db, r, op, k, vlen, "C02.step")
	}
	if !reopen("C02.final") {
		return
	}
	checkItems(db, r, "C02.final")
	// a second cycle with no writes changes nothing
	if !reopen("C02.idle") {
		return
	}
	if db.index.level > 0 {
		vCover("C02.level>0")
	}
	if len(db.index.freeBucketOffs) > 0 {
		vCover("C02.free-overflow-buckets-persisted")
	}
	vCover("C02.seq.done")
}

// the prefix overwrites k0, so that the first segment holds a dead record and is eligible for compaction
func H_C02_seq_q() { hC02seq(3, 4, 2, 2) }
func H_C02_seq_t() { hC02seq(3, 4, 4, 2) }

// H_C02_meta: metadata round trips with fully symbolic field values.
func H_C02_meta() {
	opts := (&Options{FileSystem: fs.Mem}).copyWithDefaults("c02m")
	nfree := vCase() % 4
	idx := &index{opts: opts, level: vU8("level"), numKeys: vU32("numKeys"), numBuckets: vU32("numBuckets"), splitBucketIdx: vU32("split")}
	for i := 0; i < nfree; i++ {
		idx.freeBucketOffs = append(idx.freeBucketOffs, int64(vU64("free")))
	}
	vAssert(idx.writeMeta() == nil, "C02.meta.index.write")
	got := &index{opts: opts}
	vAssert(got.readMeta() == nil, "C02.meta.index.read")
	vAssert(got.level == idx.level, "C02.meta.index.level")
	vAssert(got.numKeys == idx.numKeys, "C02.meta.index.numKeys")
	vAssert(got.numBuckets == idx.numBuckets, "C02.meta.index.numBuckets")
	vAssert(got.splitBucketIdx == idx.splitBucketIdx, "C02.meta.index.splitBucketIdx")
	vAssert(len(got.freeBucketOffs) == nfree, "C02.meta.index.free.len")
	for i := 0; i < nfree && i < len(got.freeBucketOffs); i++ {
		vAssert(got.freeBucketOffs[i] == idx.freeBucketOffs[i], "C02.meta.index.free.elem")
	}
	// db meta
	// complete enough for code that consults the index or the datalog while writing metadata
	db := &DB{opts: opts, hashSeed: vU32("seed"), index: &index{opts: opts, numKeys: 1, numBuckets: 1}, datalog: &datalog{opts: opts}, metrics: &Metrics{}}
	vAssert(db.writeMeta() == nil, "C02.meta.db.write")
	db2 := &DB{opts: opts, index: &index{opts: opts, numKeys: 1, numBuckets: 1}, datalog: &datalog{opts: opts}, metrics: &Metrics{}}
	vAssert(db2.readMeta() == nil, "C02.meta.db.read")
	vAssert(db2.hashSeed == db.hashSeed, "C02.meta.db.seed")
	// segment meta
	sm := &segmentMeta{Full: vBool("full"), PutRecords: vU32("puts"), DeleteRecords: vU32("dels"), DeletedKeys: vU32("dk"), DeletedBytes: vU32("db")}
	vAssert(writeGobFile(opts.FileSystem, "s.pmt", sm) == nil, "C02.meta.seg.write")
	sm2 := &segmentMeta{}
	vAssert(readGobFile(opts.FileSystem, "s.pmt", &sm2) == nil, "C02.meta.seg.read")
	vAssert(*sm2 == *sm, "C02.meta.seg.fields")
	vCover("C02.meta.done")
}

// H_C02_xfs: a directory written and cleanly closed through the plain OS file
// system reopens identically through the memory-mapped one and vice versa
// (both over the kernel model), without recovery.
func H_C02_xfs() {
	n := 2
	vlen := 2
	rec := 10 + 8 + vlen
	fss := []fs.FileSystem{fs.OS, fs.OSMMap}
	first := vCase() % 2
	dir := "c02x"
	r := newRef(n, 8)
	var db *DB
	var err error
	for sess := 0; sess < 3; sess++ {
		fsys := fss[(first+sess)%2]
		efs := &errFS{inner: fsys}
		db, err = Open(dir, smallOpts(efs, 2, rec))
		vAssert(err == nil, "C02x.open")
		if err != nil {
			return
		}
		vAssert(efs.renames == 0, "C02x.no-recovery")
		checkReads(db, r, "C02x.contents")
		if sess > 0 {
			checkItems(db, r, "C02x.contents")
			vCover("C02x.reopened-through-the-other-file-system")
		}
		for step := 0; step < 1; step++ {
			code := vChoice("op", 2*n+1)
			op, k := decodeOp(code, n)
			applyOp(db, r, op, k, vlen, "C02x.step")
		}
		vAssert(db.Close() == nil, "C02x.close")
	}
	vCover("C02x.done")
}

// H_C02_seed: the hash seed itself survives a clean restart for every seed value
// (crypto/rand is stubbed by a fresh arbitrary value per call in this harness):
// same seed after reopen, the key is still found.
func H_C02_seed() {
	vFlag("freshSeeds", 1)
	opts := smallOpts(fs.Mem, 2, 20)
	db, err := Open("c02s", opts)
	vAssert(err == nil, "C02s.open")
	if err != nil {
		return
	}
	r := newRef(1, 8)
	applyOp(db, r, 0, 0, 2, "C02s.put")
	seed := db.hashSeed
	vAssert(db.Close() == nil, "C02s.close")
	db2, err := Open("c02s", opts)
	vAssert(err == nil, "C02s.reopen")
	if err != nil {
		return
	}
	vAssert(db2.hashSeed == seed, "C02s.hash-seed-survives-clean-restart")
	checkReads(db2, r, "C02s.contents")
	vCover("C02s.done")
}

// H_C02_seed2: sessions that empty the database. An Open that finds the index empty
// draws a NEW hash seed (fresh arbitrary value per call); whatever the sequence of
// non-empty / emptied / refilled sessions (3 symbolic session kinds), the seed in
// use when a session closes is the one the next session works with whenever the
// index is not empty, and every key is found.
func H_C02_seed2() {
	vFlag("freshSeeds", 1)
	opts := smallOpts(fs.Mem, 2, 20)
	dir := "c02s2"
	db, err := Open(dir, opts)
	vAssert(err == nil, "C02s2.open")
	if err != nil {
		return
	}
	r := newRef(1, 8)
	for session := 0; session < 4; session++ {
		// 0: put the key, 1: delete it, 2: nothing
		kind := 0
		if session > 0 {
			kind = vChoice("session", 3)
		}
		switch kind {
		case 0:
			applyOp(db, r, 0, 0, 2, "C02s2.put")
		case 1:
			applyOp(db, r, 1, 0, 2, "C02s2.delete")
		}
		checkReads(db, r, "C02s2.in-session")
		seed := db.hashSeed
		nonEmpty := db.Count() > 0
		vAssert(db.Close() == nil, "C02s2.close")
		db, err = Open(dir, opts)
		vAssert(err == nil, "C02s2.reopen")
		if err != nil {
			return
		}
		if nonEmpty {
			vAssert(db.hashSeed == seed, "C02s2.hash-seed-survives-clean-restart")
		} else {
			vCover("C02s2.emptied-database-reopened")
		}
		checkReads(db, r, "C02s2.contents")
	}
	vCover("C02s2.done")
}

// H_C02_closeerr: one write issued by Close (data, bucket or metadata payload;
// symbolic choice which) fails with an I/O error. Either Close reports an error,
// or it returns nil - and then the next Open must succeed with the same contents.
func H_C02_closeerr() {
	n := 2
	vlen := 2
	rec := 10 + 8 + vlen
	efs := &errFS{inner: fs.Mem, failWrite: true}
	dir := "c02e"
	db, err := Open(dir, smallOpts(efs, 2, rec))
	vAssert(err == nil, "C02e.open")
	if err != nil {
		return
	}
	r := newRef(n, 8)
	for _, k := range []int{0, 1, 0} {
		applyOp(db, r, 0, k, vlen, "C02e.prefix")
	}
	efs.armed = true
	cerr := db.Close()
	efs.armed = false
	if cerr != nil {
		vCover("C02e.close-reported-the-write-error")
		return
	}
	if efs.injected {
		vCover("C02e.close-returned-nil-although-a-write-failed")
	}
	db2, err := Open(dir, smallOpts(fs.Mem, 2, rec))
	vAssert(err == nil, "C02e.reopen-after-successful-close")
	if err != nil {
		return
	}
	checkReads(db2, r, "C02e.contents")
	vCover("C02e.done")
}
