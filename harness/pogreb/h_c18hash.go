package pogreb

import "github.com/akrylysov/pogreb/internal/hash"

// H_C18_hash: the real Sum32WithSeed (executed from its SSA, multiplications
// and rotations as bit-vector terms) equals the reference MurmurHash3 for all
// data of the case's length and all seeds.
func H_C18_hash() {
	vFlag("realHash", 1)
	n := vCase()
	d := vBytes("d", n)
	seed := vU32("seed")
	vAssert(hash.Sum32WithSeed(d, seed) == refMurmur3(d, seed), "C18.hash.murmur3")
	vCover("C18.hash.done")
}

// H_C18_dbhash: the hash the DATABASE stores in a slot (DB.hash) is the documented
// MurmurHash3 of the WHOLE key under the database's seed, for keys of length 0, 3,
// 17 (symbolic seed) and 1023..1030, 65535 (fixed seed, concrete pattern, the last
// 6 bytes symbolic): a directory written by the pinned version stores exactly that
// value, so anything else makes its keys unreachable after a clean reopen.
func H_C18_dbhash() {
	vFlag("realHash", 1)
	lens := []int{0, 3, 17, 1023, 1024, 1025, 1030, 65535}
	L := lens[vCase()%len(lens)]
	key := make([]byte, L)
	for i := range key {
		key[i] = byte(i*31 + 7)
	}
	nsym := 6
	if L < nsym {
		nsym = L
	}
	sym := vBytes("tail", nsym)
	copy(key[L-nsym:], sym)
	seed := uint32(0x9747b28c)
	if L <= 17 {
		seed = vU32("seed")
	}
	db := &DB{hashSeed: seed, opts: &Options{}, index: &index{numBuckets: 1}, datalog: &datalog{}, metrics: &Metrics{}}
	vAssert(db.hash(key) == refMurmur3(key, seed), "C18.dbhash.slot-hash-is-murmur3-of-the-whole-key")
	vCover("C18.dbhash.done")
}
