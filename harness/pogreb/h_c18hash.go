package pogreb

import "github.com/akrylysov/pogreb/internal/hash"

// H_C18_hash: the real Sum32WithSeed (executed from its SSA, multiplications
// and rotations as bit-vector terms) equals the reference MurmurHash3 for all
// data of the case's length and all seeds.
func H_C18_hash() {
	vFlag("realHash", 1)
	n := vCase()
	d := vBytes("d", n)
	seed := vU32("seed")
	vAssert(hash.Sum32WithSeed(d, seed) == refMurmur3(d, seed), "C18.hash.murmur3")
	vCover("C18.hash.done")
}
