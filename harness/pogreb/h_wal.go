package pogreb

import "github.com/akrylysov/pogreb/fs"

// WAL-state harnesses (C04, C05): the write-ahead log is not produced by a
// history. Three segment files are written directly (reference encoder), with
//   - physical ids {0,1,2} against sequence ids {1,2,3} in every relative order
//     (case): ids are re-used lowest-free-first after compactions, so that every
//     order is reachable and "older" must mean "lower sequence id";
//   - 1 or 2 records per segment, each a put or a delete of one of two keys
//     (forked), values symbolic;
//   - the lock file of a dead owner.
// The meaning of such a log is its replay in sequence order (reference map).
// Open (recovery) must produce exactly that; Compact must preserve it and leave a
// log whose replay is still that (process death + recovery right after the
// compaction, and after one more acknowledged write); recovery is idempotent.

var walPerms = [][3]uint64{{1, 2, 3}, {1, 3, 2}, {2, 1, 3}, {2, 3, 1}, {3, 1, 2}, {3, 2, 1}}

// sequence-id bases: the three sequence ids are base+1..base+3
// (65536 and 2^32 are crossed: sequence ids are 64-bit and never re-used)
var walBases = []uint64{0, 65533, 1<<32 - 2}

// mode 0: compaction flow (C05); 1: backup flow (C12); 2: clean-restart flow (C02)
func hWal(maxRecs int, afterOp bool) { hWalM(maxRecs, afterOp, 0, 0) }

func hWalM(maxRecs int, afterOp bool, mode int, base uint64) {
	n := 2
	vlen := 2
	rec := 10 + 8 + vlen
	dir := "wal"
	seqs := walPerms[vCase()%6]
	fsys := (&Options{FileSystem: fs.Mem}).copyWithDefaults(dir).FileSystem
	r := newRef(n, 8)
	first := true
	for seq := uint64(1); seq <= 3; seq++ {
		id := 0
		for i := 0; i < 3; i++ {
			if seqs[i] == seq {
				id = i
			}
		}
		cnt := 2
		if maxRecs < 2 || (seq > 1 && vChoice("nrec", 2) == 0) {
			cnt = 1
		}
		var body []byte
		for j := 0; j < cnt; j++ {
			code := 0 // the first record of the log is a put of k0 (symmetry)
			if !first {
				code = vChoice("rec", 2*n)
			}
			first = false
			op, k := decodeOp(code, n)
			if op == 0 {
				v := vBytes("val", vlen)
				body = append(body, refEncode(r.keys[k], v, false)...)
				refApply(r, 0, k, v)
			} else {
				body = append(body, refEncode(r.keys[k], nil, true)...)
				refApply(r, 1, k, nil)
			}
		}
		vWriteFile(fsys, segmentName(uint16(id), base+seq), refHeader(), body)
	}
	vWriteFile(fsys, lockName)
	opts := smallOpts(fs.Mem, 2, rec)
	db, err := Open(dir, opts)
	vAssert(err == nil, "WAL.recovering-open-succeeds")
	if err != nil {
		return
	}
	checkReads(db, r, "WAL.recovered-state-is-the-replay")
	vCheckLogInvariant(db, "WAL.recovered")
	vSegmentsWellFormed(db, "WAL.recovered")
	vAssert(db.datalog.maxSequenceID == base+3, "WAL.recovered.maxSequenceID")
	if mode == 1 {
		hWalBackup(db, r, rec, dir)
		return
	}
	if mode == 2 {
		hWalRestart(db, r, rec, dir, base)
		return
	}
	cr, err := db.Compact()
	vAssert(err == nil, "WAL.compact.err")
	if cr.CompactedSegments > 0 {
		vCover("WAL.compacted")
	}
	checkReads(db, r, "WAL.compaction-preserves-contents")
	checkItems(db, r, "WAL.compacted")
	vCheckDir(db, "WAL.compacted")
	if afterOp {
		c := vChoice("op", 2*n+1)
		if c < 2*n {
			op, k := decodeOp(c, n)
			applyOp(db, r, op, k, vlen, "WAL.after")
			vCheckLogInvariant(db, "WAL.after.in-session")
		}
	}
	// process death right here
	fs.VerifDropHandles()
	db2, err := Open(dir, smallOpts(fs.Mem, 2, rec))
	vAssert(err == nil, "WAL.second-recovering-open-succeeds")
	if err != nil {
		return
	}
	checkReads(db2, r, "WAL.replay-after-compaction-is-unchanged")
	vCheckLogInvariant(db2, "WAL.recovered2")
	vSegmentsWellFormed(db2, "WAL.recovered2")
	checkSelfConsistent(db2, r, "WAL.recovered2")
	vAssert(db2.Close() == nil, "WAL.close")
	db3, err := Open(dir, smallOpts(fs.Mem, 2, rec))
	vAssert(err == nil, "WAL.clean-open-succeeds")
	if err != nil {
		return
	}
	checkReads(db3, r, "WAL.clean-reopen")
	vCheckLogInvariant(db3, "WAL.clean-reopen")
	vCover("WAL.done")
}

func H_C05_wal()   { hWal(2, false) }
func H_C05_wal_t() { hWal(2, true) }

// backup flow: the copy of a recovered database with arbitrary id/sequence
// layout opens and holds the same contents; again after a compaction of the source.
func hWalBackup(db *DB, r *refMap, rec int, dir string) {
	for round := 0; round < 2; round++ {
		bdir := "walbk0"
		if round == 1 {
			bdir = "walbk1"
		}
		vAssert(db.Backup(bdir) == nil, "WAL.backup.err")
		checkReads(db, r, "WAL.backup.source-unaffected")
		bk, err := Open(bdir, smallOpts(fs.Mem, 2, rec))
		vAssert(err == nil, "WAL.backup.copy-opens")
		if err != nil {
			return
		}
		checkReads(bk, r, "WAL.backup.copy-equals-source")
		checkItems(bk, r, "WAL.backup.copy")
		vCheckLogInvariant(bk, "WAL.backup.copy")
		vAssert(bk.Close() == nil, "WAL.backup.copy-closes")
		if round == 0 {
			_, err := db.Compact()
			vAssert(err == nil, "WAL.backup.compact")
			applyOp(db, r, 0, 1, 2, "WAL.backup.put")
		}
	}
	vCover("WAL.backup.done")
}

// clean-restart flow: Close + Open gives the same contents without recovery, the
// log goes on with the next sequence id, and a second clean restart still works.
func hWalRestart(db *DB, r *refMap, rec int, dir string, base uint64) {
	sub := db.opts.FileSystem
	for round := 0; round < 2; round++ {
		vAssert(db.Close() == nil, "WAL.restart.close")
		var err error
		db, err = Open(dir, smallOpts(fs.Mem, 2, rec))
		vAssert(err == nil, "WAL.restart.clean-open-succeeds")
		if err != nil {
			return
		}
		for _, nm := range vDirNames(sub) {
			vAssert(!vHasSuffix(nm, recoveryBackupExt), "WAL.restart.clean-open-runs-no-recovery")
		}
		checkReads(db, r, "WAL.restart.contents")
		vCheckLogInvariant(db, "WAL.restart")
		// three more records: at least one rollover to a segment with a new sequence id
		applyOp(db, r, 0, 0, 2, "WAL.restart.put")
		applyOp(db, r, 0, 1, 2, "WAL.restart.put")
		applyOp(db, r, 0, 0, 2, "WAL.restart.put")
		vAssert(db.datalog.maxSequenceID > base+3, "WAL.restart.sequence-ids-keep-growing")
	}
	checkReads(db, r, "WAL.restart.final")
	vCover("WAL.restart.done")
}

// case = permutation (6) x sequence-id base (3); one record per segment after the first
func H_C12_wal()    { c := vCase(); hWalM(1, false, 1, walBases[(c/6)%3]) }
func H_C02_wal()    { c := vCase(); hWalM(1, false, 2, walBases[(c/6)%3]) }
func H_C05_walseq() { c := vCase(); hWalM(1, false, 0, walBases[1+(c/6)%2]) }
