package pogreb

// Reference encoders/decoders written from docs/design.md (format version 2).
// They share hash/crc32.ChecksumIEEE with the implementation (in the engine an
// uninterpreted function per length, natively the real CRC).

import "hash/crc32"

// refEncode: key size u16 LE | (del<<31 | value size) u32 LE | key | value | crc32 of all preceding bytes.
func refEncode(key, value []byte, del bool) []byte {
	n := 2 + 4 + len(key) + len(value) + 4
	out := make([]byte, n)
	kl := len(key)
	out[0] = byte(kl)
	out[1] = byte(kl >> 8)
	vl := uint32(len(value))
	if del {
		vl |= 0x80000000
	}
	out[2] = byte(vl)
	out[3] = byte(vl >> 8)
	out[4] = byte(vl >> 16)
	out[5] = byte(vl >> 24)
	p := 6
	for i := 0; i < len(key); i++ {
		out[p] = key[i]
		p++
	}
	for i := 0; i < len(value); i++ {
		out[p] = value[i]
		p++
	}
	c := crc32.ChecksumIEEE(out[:p])
	out[p] = byte(c)
	out[p+1] = byte(c >> 8)
	out[p+2] = byte(c >> 16)
	out[p+3] = byte(c >> 24)
	return out
}
