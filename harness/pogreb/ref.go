package pogreb

// Reference encoders/decoders written from docs/design.md (format version 2).
// They share hash/crc32.ChecksumIEEE with the implementation (in the engine an
// uninterpreted function per length, natively the real CRC).

import "hash/crc32"

// refEncode: key size u16 LE | (del<<31 | value size) u32 LE | key | value | crc32 of all preceding bytes.
func refEncode(key, value []byte, del bool) []byte {
	n := 2 + 4 + len(key) + len(value) + 4
	out := make([]byte, n)
	kl := len(key)
	out[0] = byte(kl)
	out[1] = byte(kl >> 8)
	vl := uint32(len(value))
	if del {
		vl |= 0x80000000
	}
	out[2] = byte(vl)
	out[3] = byte(vl >> 8)
	out[4] = byte(vl >> 16)
	out[5] = byte(vl >> 24)
	p := 6
	for i := 0; i < len(key); i++ {
		out[p] = key[i]
		p++
	}
	for i := 0; i < len(value); i++ {
		out[p] = value[i]
		p++
	}
	c := crc32.ChecksumIEEE(out[:p])
	out[p] = byte(c)
	out[p+1] = byte(c >> 8)
	out[p+2] = byte(c >> 16)
	out[p+3] = byte(c >> 24)
	return out
}

// refRecord is one record accepted by the reference decoder.
type refRecord struct {
	del    bool
	key    []byte
	value  []byte
	offset int // offset of the record in the segment file
	size   int
}

// refDecodeAt validates the record starting at data[off:] the way the
// documented format prescribes. ok=false means "first invalid record here":
// too short for a header, claimed length beyond the data present, or checksum
// mismatch.
func refDecodeAt(data []byte, off int) (rec refRecord, ok bool) {
	rest := len(data) - off
	if rest < 6 {
		return rec, false
	}
	kl := int(data[off]) | int(data[off+1])<<8
	vraw := uint32(data[off+2]) | uint32(data[off+3])<<8 | uint32(data[off+4])<<16 | uint32(data[off+5])<<24
	del := vraw&0x80000000 != 0
	vl := int64(vraw & 0x7fffffff)
	total := int64(6) + int64(kl) + vl + 4
	if total > int64(rest) {
		return rec, false
	}
	t := int(total)
	sum := uint32(data[off+t-4]) | uint32(data[off+t-3])<<8 | uint32(data[off+t-2])<<16 | uint32(data[off+t-1])<<24
	if sum != crc32.ChecksumIEEE(data[off:off+t-4]) {
		return rec, false
	}
	rec.del = del
	rec.key = data[off+6 : off+6+kl]
	rec.value = data[off+6+kl : off+t-4]
	rec.size = t
	return rec, true
}

// refHeader is the documented 512-byte file header.
func refHeader() []byte {
	h := make([]byte, 512)
	sig := []byte{'p', 'o', 'g', 'r', 'e', 'b', 0x0e, 0xfd}
	for i := range sig {
		h[i] = sig[i]
	}
	h[8] = 2 // format version 2, uint32 little endian
	return h
}

// refMurmur3 is MurmurHash3_x86_32 written from the reference description.
func refMurmur3(data []byte, seed uint32) uint32 {
	const c1, c2 = 0xcc9e2d51, 0x1b873593
	h := seed
	n := len(data)
	nb := n / 4
	for b := 0; b < nb; b++ {
		k := uint32(data[4*b]) | uint32(data[4*b+1])<<8 | uint32(data[4*b+2])<<16 | uint32(data[4*b+3])<<24
		k *= c1
		k = k<<15 | k>>17
		k *= c2
		h ^= k
		h = h<<13 | h>>19
		h = h*5 + 0xe6546b64
	}
	var k uint32
	tail := data[4*nb:]
	if len(tail) >= 3 {
		k ^= uint32(tail[2]) << 16
	}
	if len(tail) >= 2 {
		k ^= uint32(tail[1]) << 8
	}
	if len(tail) >= 1 {
		k ^= uint32(tail[0])
		k *= c1
		k = k<<15 | k>>17
		k *= c2
		h ^= k
	}
	h ^= uint32(n)
	h ^= h >> 16
	h *= 0x85ebca6b
	h ^= h >> 13
	h *= 0xc2b2ae35
	h ^= h >> 16
	return h
}
