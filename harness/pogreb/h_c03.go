package pogreb

import "github.com/akrylysov/pogreb/fs"

// hC03: history, process crash at a symbolic instant (every mutating
// file-system call of the armed suffix, torn data writes included), recovering
// Open, observable state = reference before OR after the operation in flight.
func hC03(n, prefix, L, vlen int) {
	cfs := &crashFS{inner: fs.Mem}
	rec := 10 + 8 + vlen
	opts := smallOpts(cfs, 2, rec)
	dir := "c03"
	db, err := Open(dir, opts)
	vAssert(err == nil, "C03.open")
	if err != nil {
		return
	}
	r := newRef(n, 8)
	for i := 0; i < prefix; i++ {
		applyOp(db, r, 0, i%n, vlen, "C03.prefix")
	}
	cfs.armed = true
	before := r.clone()
	after := r.clone()
	crashed := false
	nops := 2*n + 3
	for step := 0; step < L && !crashed; step++ {
		var code int
		if step == 0 {
			code = vCase() % nops
		} else {
			code = vChoice("op", nops)
		}
		op, k := decodeOp5(code, n)
		var v []byte
		if op == 0 {
			v = vBytes("val", vlen)
		}
		before = after.clone()
		refApply(after, op, k, v)
		crashed = vRunCrashable(func() { dbApply(&db, dir, opts, after, op, k, v, "C03.step") })
		if !crashed {
			before = after.clone()
			if db == nil {
				return
			}
		}
	}
	if crashed {
		vCover("C03.crash-inside-operation")
	} else {
		vCover("C03.crash-between-operations")
	}
	// the process is dead: handles and locks vanish, the lock file stays
	fs.VerifDropHandles()
	cfs.armed = false
	db2, err := Open(dir, smallOpts(fs.Mem, 2, rec))
	vAssert(err == nil, "C03.recovering-open-succeeds")
	if err != nil {
		return
	}
	mA := stateMatches(db2, before, "C03.recovered")
	mB := stateMatches(db2, after, "C03.recovered")
	vAssert(vOr(mA, mB), "C03.recovered-state-is-before-or-after-inflight-op")
	checkSelfConsistent(db2, after, "C03.recovered")
	vSegmentsWellFormed(db2, "C03.recovered")
	vCheckLogInvariant(db2, "C03.recovered")
	vCover("C03.done")
}

// the prefix overwrites k0: the first segment holds a dead record, so Compact has work
func H_C03_q()       { hC03(2, 3, 2, 2) }
func H_C03_tear()    { hC03(2, 1, 2, 300) }
func H_C03_tearhdr() { hC03(2, 1, 2, 490) }
func H_C03_t()       { hC03(2, 3, 3, 2) }

// H_C03_shortwrite: one append to a segment writes a 7-byte prefix and fails
// (the operation reports the error). Later operations are acknowledged, then the
// process dies: recovery must still yield every acknowledged write.
func H_C03_shortwrite() {
	n := 2
	vlen := 2
	rec := 10 + 8 + vlen
	efs := &errFS{inner: fs.Mem, shortWrite: true, segsOnly: true}
	dir := "c03w"
	db, err := Open(dir, smallOpts(efs, 4, rec))
	vAssert(err == nil, "C03w.open")
	if err != nil {
		return
	}
	r := newRef(n, 8)
	applyOp(db, r, 0, 0, vlen, "C03w.prefix")
	// the failing operation: its effect is all or nothing
	efs.armed = true
	code := vCase() % (2 * n)
	op, k := decodeOp(code, n)
	before := r.clone()
	v := vBytes("val", vlen)
	var operr error
	if op == 0 {
		operr = db.Put(r.keys[k], v)
	} else {
		operr = db.Delete(r.keys[k])
	}
	efs.armed = false
	after := before.clone()
	refApply(after, op, k, v)
	if operr != nil {
		vCover("C03w.operation-failed-after-a-short-write")
		mA := stateMatches(db, before, "C03w.failed")
		mB := stateMatches(db, after, "C03w.failed")
		vAssert(vOr(mA, mB), "C03w.failed-operation-is-all-or-nothing")
		r = observeState(db, after) // whichever of the two it was
	} else {
		r = after
	}
	// acknowledged operations after the failure
	for step := 0; step < 2; step++ {
		c2 := vChoice("op", 2*n)
		op2, k2 := decodeOp(c2, n)
		applyOp(db, r, op2, k2, vlen, "C03w.later")
	}
	checkReads(db, r, "C03w.live")
	fs.VerifDropHandles()
	db2, err := Open(dir, smallOpts(fs.Mem, 4, rec))
	vAssert(err == nil, "C03w.recovering-open-succeeds")
	if err != nil {
		return
	}
	checkReads(db2, r, "C03w.recovered")
	vSegmentsWellFormed(db2, "C03w.recovered")
	vCover("C03w.done")
}
