package pogreb

import "github.com/akrylysov/pogreb/fs"

// hC03: history, process crash at a symbolic instant (every mutating
// file-system call of the armed suffix, torn data writes included), recovering
// Open, observable state = reference before OR after the operation in flight.
func hC03(n, prefix, L, vlen int) {
	cfs := &crashFS{inner: fs.Mem}
	rec := 10 + 8 + vlen
	opts := smallOpts(cfs, 2, rec)
	dir := "c03"
	db, err := Open(dir, opts)
	vAssert(err == nil, "C03.open")
	if err != nil {
		return
	}
	r := newRef(n, 8)
	for i := 0; i < prefix; i++ {
		applyOp(db, r, 0, i%n, vlen, "C03.prefix")
	}
	cfs.armed = true
	before := r.clone()
	after := r.clone()
	crashed := false
	nops := 2*n + 3
	for step := 0; step < L && !crashed; step++ {
		var code int
		if step == 0 {
			code = vCase() % nops
		} else {
			code = vChoice("op", nops)
		}
		op, k := decodeOp5(code, n)
		var v []byte
		if op == 0 {
			v = vBytes("val", vlen)
		}
		before = after.clone()
		refApply(after, op, k, v)
		crashed = vRunCrashable(func() { dbApply(&db, dir, opts, after, op, k, v, "C03.step") })
		if !crashed {
			before = after.clone()
			if db == nil {
				return
			}
		}
	}
	if crashed {
		vCover("C03.crash-inside-operation")
	} else {
		vCover("C03.crash-between-operations")
	}
	// the process is dead: handles and locks vanish, the lock file stays
	fs.VerifDropHandles()
	cfs.armed = false
	db2, err := Open(dir, smallOpts(fs.Mem, 2, rec))
	vAssert(err == nil, "C03.recovering-open-succeeds")
	if err != nil {
		return
	}
	mA := stateMatches(db2, before, "C03.recovered")
	mB := stateMatches(db2, after, "C03.recovered")
	vAssert(vOr(mA, mB), "C03.recovered-state-is-before-or-after-inflight-op")
	checkSelfConsistent(db2, after, "C03.recovered")
	vSegmentsWellFormed(db2, "C03.recovered")
	vCheckLogInvariant(db2, "C03.recovered")
	vCover("C03.done")
}

// the prefix overwrites k0: the first segment holds a dead record, so Compact has work
func H_C03_q()    { hC03(2, 3, 2, 2) }
func H_C03_tear() { hC03(2, 1, 2, 300) }
func H_C03_tearhdr() { hC03(2, 1, 2, 490) }
func H_C03_t()    { hC03(2, 3, 3, 2) }
