package pogreb

import (
	"time"

	"github.com/akrylysov/pogreb/fs"
)

func vHasSuffix(s, suf string) bool { return len(s) >= len(suf) && s[len(s)-len(suf):] == suf }

// vCheckDir: every file in the directory belongs to a live segment (or is its
// metadata side file), the index, database metadata or the lock.
func vCheckDir(db *DB, tag string) {
	for _, nm := range vDirNames(db.opts.FileSystem) {
		switch nm {
		case lockName, dbMetaName, indexMetaName, indexMainName, indexOverflowName:
			continue
		}
		live := false
		for _, seg := range db.datalog.segments {
			if seg != nil && (nm == seg.name || nm == seg.name+metaExt) {
				live = true
			}
		}
		vAssert(live, tag+".dir.orphan-file")
	}
}

func vCountSegFiles(fsys fs.FileSystem) (segs int, metas int) {
	for _, nm := range vDirNames(fsys) {
		if vHasSuffix(nm, segmentExt) {
			segs++
		}
		if vHasSuffix(nm, segmentExt+metaExt) {
			metas++
		}
	}
	return
}

// hC15: histories of put/delete/compact/close+open. After every successful
// Compact: exactly CompactedSegments segment files disappeared together with
// their side files, nothing is orphaned, and the database stays usable
// (Sync, Put, Delete, Close succeed) - also when every segment was removed.
func hC15(n, prefix, L, vlen int) {
	opts := smallOpts(fs.Mem, 2, 10+8+vlen)
	dir := "c15"
	db, err := Open(dir, opts)
	vAssert(err == nil, "C15.open")
	if err != nil {
		return
	}
	sub := db.opts.FileSystem
	r := newRef(n, 8)
	vAgeLog(db) // steady workload on an old log: sequence ids beyond 16 bits
	for i := 0; i < prefix; i++ {
		applyOp(db, r, 0, i%n, vlen, "C15.prefix")
	}
	nops := 2*n + 2
	for step := 0; step < L; step++ {
		var code int
		if step == 0 {
			code = vCase() % (nops + 1)
		} else {
			code = vChoice("op", nops+1)
		}
		switch {
		case code == nops: // clean restart: writes the .psg.pmt side files
			vAssert(db.Close() == nil, "C15.close")
			vAssert(fs.VerifOpenHandles() == 0, "C15.no-open-handles-after-close")
			db, err = Open(dir, opts)
			vAssert(err == nil, "C15.reopen")
			if err != nil {
				return
			}
			vCover("C15.restart")
		case code == 2*n: // compact
			segsBefore, _ := vCountSegFiles(sub)
			hadMeta := false
			for _, s := range db.datalog.segments {
				if s != nil && vExists(sub, s.name+metaExt) {
					hadMeta = true
				}
			}
			cr, err := db.Compact()
			vAssert(err == nil, "C15.compact.err")
			segsAfter, _ := vCountSegFiles(sub)
			// compaction may open one new segment to receive promoted records
			live := 0
			for _, s := range db.datalog.segments {
				if s != nil {
					live++
					vAssert(vExists(sub, s.name), "C15.compact.live-segment-missing")
				}
			}
			vAssert(segsAfter == live, "C15.compact.segment-files=live-segments")
			// every compacted source is gone; promoted records may have opened new segments
			// (at most one per promoted record)
			vAssert(segsAfter <= segsBefore-cr.CompactedSegments+vMaxKeys, "C15.compact.reclaimed")
			_ = segsBefore
			vCheckDir(db, "C15.compact")
			if cr.CompactedSegments > 0 {
				vCover("C15.compacted")
				if hadMeta {
					vCover("C15.compacted-after-restart")
				}
			}
			if live == 0 {
				vCover("C15.all-segments-removed")
			}
			// the database stays usable
			vAssert(db.Sync() == nil, "C15.usable.sync")
		default:
			op, k := decodeOp(code, n)
			applyOp(db, r, op, k, vlen, "C15.step")
		}
		checkReads(db, r, "C15.step")
	}
	vCheckDir(db, "C15.final")
	vAssert(db.Sync() == nil, "C15.final.sync")
	applyOp(db, r, 0, 0, vlen, "C15.final")
	applyOp(db, r, 1, 1%n, vlen, "C15.final")
	checkReads(db, r, "C15.final")
	vAssert(db.Close() == nil, "C15.final.close")
	vAssert(fs.VerifOpenHandles() == 0, "C15.final.no-open-handles-after-close")
	db, err = Open(dir, opts)
	vAssert(err == nil, "C15.final.reopen")
	if err != nil {
		return
	}
	checkReads(db, r, "C15.final2")
	vCheckDir(db, "C15.final2")
	vCover("C15.done")
}

func H_C15_q() { hC15(2, 3, 3, 2) }
func H_C15_t() { hC15(3, 3, 4, 2) }

// vCheckDirSoft: as vCheckDir, but the path continues after a finding.
func vCheckDirSoft(db *DB, tag string) {
	for _, nm := range vDirNames(db.opts.FileSystem) {
		switch nm {
		case lockName, dbMetaName, indexMetaName, indexMainName, indexOverflowName:
			continue
		}
		live := false
		for _, seg := range db.datalog.segments {
			if seg != nil && (nm == seg.name || nm == seg.name+metaExt) {
				live = true
			}
		}
		vExpect(live, tag+".dir.orphan-file")
	}
}

// H_C15_bg: periodic background compaction (compaction interval set, sync
// interval 0 / -1 by case): the worker arms a compaction ticker; when it fires
// (at any scheduling point, once) the overwritten segment is reclaimed, nothing
// leaks, the database stays usable and closes cleanly.
func H_C15_bg() {
	n := 2
	vlen := 2
	rec := 10 + 8 + vlen
	opts := smallOpts(fs.Mem, 2, rec)
	opts.BackgroundCompactionInterval = time.Second
	if vCase()%2 == 1 {
		opts.BackgroundSyncInterval = time.Duration(-1)
	}
	vFlag("tickBudget", 1)
	dir := "c15bg"
	db, err := Open(dir, opts)
	vAssert(err == nil, "C15bg.open")
	if err != nil {
		return
	}
	r := newRef(n, 8)
	applyOp(db, r, 0, 0, vlen, "C15bg.op")
	applyOp(db, r, 0, 0, vlen, "C15bg.op")
	applyOp(db, r, 0, 1, vlen, "C15bg.op")
	applyOp(db, r, 0, 1, vlen, "C15bg.op")
	vAssert(db.Close() == nil, "C15bg.close")
	// the worker has run and exited: it armed exactly one ticker (the compaction one)
	vAssert(vCounter("stub:time.NewTicker:model") == 1 || !vSymbolic(), "C15bg.compaction-ticker-armed")
	plain := smallOpts(fs.Mem, 2, rec)
	db2, err := Open(dir, plain)
	vAssert(err == nil, "C15bg.reopen")
	if err != nil {
		return
	}
	checkReads(db2, r, "C15bg.after")
	vCheckDir(db2, "C15bg.after")
	vCover("C15bg.done")
}

// H_C15_idle: sessions that end while the active segment holds nothing but its
// header (fresh database; every segment compacted away in the previous session;
// restart without writes). After every Close no handle of the in-memory file
// system (the analogue of descriptors / mappings) is left open, the file count
// does not grow from the second idle restart on, and the database stays usable.
// case 0: fresh database; case 1: after a compaction that removed everything.
func H_C15_idle() {
	n := 2
	vlen := 2
	opts := smallOpts(fs.Mem, 2, 10+8+vlen)
	dir := "c15idle"
	db, err := Open(dir, opts)
	vAssert(err == nil, "C15i.open")
	if err != nil {
		return
	}
	r := newRef(n, 8)
	if vCase()%2 == 1 {
		applyOp(db, r, 0, 0, vlen, "C15i.op")
		applyOp(db, r, 0, 1, vlen, "C15i.op")
		applyOp(db, r, 1, 0, vlen, "C15i.op")
		applyOp(db, r, 1, 1, vlen, "C15i.op")
		applyOp(db, r, 2, 0, vlen, "C15i.op")
		applyOp(db, r, 2, 0, vlen, "C15i.op")
	}
	files := -1
	for round := 0; round < 3; round++ {
		vAssert(db.Close() == nil, "C15i.close")
		vAssert(fs.VerifOpenHandles() == 0, "C15i.no-open-handles-after-close")
		db, err = Open(dir, opts)
		vAssert(err == nil, "C15i.reopen")
		if err != nil {
			return
		}
		vCheckDir(db, "C15i")
		checkReads(db, r, "C15i")
		nf := len(vDirNames(db.opts.FileSystem))
		// the first clean Close adds the side file of the (new) active segment;
		// from then on idle restarts must not add files
		if round >= 2 {
			vAssert(nf <= files, "C15i.file-count-grows-over-idle-restarts")
		}
		files = nf
	}
	applyOp(db, r, 0, 0, vlen, "C15i.final")
	checkReads(db, r, "C15i.final")
	vAssert(db.Close() == nil, "C15i.final.close")
	vAssert(fs.VerifOpenHandles() == 0, "C15i.final.no-open-handles-after-close")
	vCover("C15i.done")
}
