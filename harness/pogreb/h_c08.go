package pogreb

import (
	"hash/crc32"
	"os"

	"github.com/akrylysov/pogreb/fs"
)

// vWriteFile creates a file with the given contents on fsys.
func vWriteFile(fsys fs.FileSystem, name string, parts ...[]byte) {
	f, err := fsys.OpenFile(name, os.O_CREATE|os.O_RDWR|os.O_TRUNC, os.FileMode(0640))
	vAssert(err == nil, "harness.create")
	if err != nil {
		return
	}
	for _, p := range parts {
		if len(p) > 0 {
			_, err = f.Write(p)
			vAssert(err == nil, "harness.write")
		}
	}
	vAssert(f.Close() == nil, "harness.close")
}

func vFileSize(fsys fs.FileSystem, name string) int64 {
	st, err := fsys.Stat(name)
	if err != nil {
		return -1
	}
	return st.Size()
}

// vFixTailCRC (native replays only): the engine treats CRC-32 as an uninterpreted
// function, so a counterexample in which the reference accepts a record formed by
// the symbolic tail fixes "stored checksum == crc(bytes)" without the real CRC
// holding. The replay realises it with real bytes: when the record's payload has
// at least 4 bytes, the last 4 payload bytes are solved so that the REAL CRC-32 of
// the record equals the checksum the model stored (a CRC pre-image, as for the
// hashes: a counterexample may depend on the checksum's value); otherwise the
// stored checksum is recomputed from the bytes.
func vFixTailCRC(tail []byte) {
	if vSymbolic() || vRecorded("tailvalid", 0) != 1 || len(tail) < 10 {
		return
	}
	kl := int(tail[0]) | int(tail[1])<<8
	vl := int((uint32(tail[2]) | uint32(tail[3])<<8 | uint32(tail[4])<<16 | uint32(tail[5])<<24) & 0x7fffffff)
	n := 6 + kl + vl
	if n+4 > len(tail) {
		return
	}
	if kl+vl >= 4 {
		want := uint32(tail[n]) | uint32(tail[n+1])<<8 | uint32(tail[n+2])<<16 | uint32(tail[n+3])<<24
		vCRCPatch(tail[:n], want)
		if crc32.ChecksumIEEE(tail[:n]) == want {
			return
		}
	}
	c := crc32.ChecksumIEEE(tail[:n])
	tail[n], tail[n+1], tail[n+2], tail[n+3] = byte(c), byte(c>>8), byte(c>>16), byte(c>>24)
}

// vCRCPatch overwrites the last 4 bytes of data so that ChecksumIEEE(data) == want
// (CRC-32 is affine: running the register backwards from the wanted final value
// over 4 bytes determines the 4 table indices, hence the bytes).
func vCRCPatch(data []byte, want uint32) {
	if len(data) < 4 {
		return
	}
	tab := crc32.IEEETable
	var top [256]byte // top byte of table entry -> index (a bijection)
	for i := 0; i < 256; i++ {
		top[tab[i]>>24] = byte(i)
	}
	// register after the prefix (ChecksumIEEE = ^update(^0, ...))
	reg := ^crc32.ChecksumIEEE(data[:len(data)-4])
	// backwards: final register f = ^want; f = tab[i3] ^ (r3>>8), ...
	f := ^want
	var idx [4]byte
	for k := 3; k >= 0; k-- {
		i := top[f>>24]
		idx[k] = i
		f = (f ^ tab[i]) << 8 // upper 24 bits of the previous register, low byte unknown (fixed forwards)
	}
	// forwards: byte_k = idx_k ^ low byte of the register before step k
	r := reg
	for k := 0; k < 4; k++ {
		b := idx[k] ^ byte(r)
		data[len(data)-4+k] = b
		r = tab[byte(r)^b] ^ (r >> 8)
	}
}

// vValidRecords builds p well-formed records with symbolic contents.
func vValidRecords(p int) []byte {
	var body []byte
	for j := 0; j < p; j++ {
		k := vBytes("rk", 1+j)
		v := vBytes("rv", j)
		body = append(body, refEncode(k, v, j%2 == 1)...)
	}
	return body
}

// hC08iter: a segment = header + p valid records + T fully symbolic tail bytes.
// recoveryIterator.next against the reference decoder: same records, file
// truncated to the end of the accepted prefix, no error, no panic.
// mode 0: the tail's claimed record size is <= 64 (exact framing);
// mode 1: it is > 64 (must end in truncation whatever the claimed size).
func hC08iter(p, T, mode int) {
	opts := (&Options{FileSystem: fs.Mem}).copyWithDefaults("c08")
	fsys := opts.FileSystem
	body := vValidRecords(p)
	tail := vBytes("tail", T)
	if T >= 6 {
		kl := uint32(tail[0]) | uint32(tail[1])<<8
		vl := (uint32(tail[2]) | uint32(tail[3])<<8 | uint32(tail[4])<<16 | uint32(tail[5])<<24) & 0x7fffffff
		if mode == 2 {
			// one record of fixed shape (2-byte key, 4-byte value): whatever value its
			// checksum has, a record whose stored checksum equals its CRC is replayed
			// (payload >= 4 bytes: the replay realises the model's checksum value)
			vAssume(kl == 2)
			vAssume(vl == 4)
		} else if mode == 0 {
			vAssume(vl <= 64)
			vAssume(kl+vl <= 64)
		} else {
			vAssume(vOr(vl > 64, kl+vl > 64))
		}
	} else if mode == 1 {
		return
	}
	name := segmentName(0, 1)
	vFixTailCRC(tail)
	vWriteFile(fsys, name, refHeader(), body, tail)
	data := append(append([]byte{}, body...), tail...)

	dl := &datalog{opts: opts}
	seg, err := dl.openSegment(name, 0, 1)
	vAssert(err == nil, "C08.iter.opensegment")
	if err != nil {
		return
	}
	it := newRecoveryIterator([]*segment{seg})
	off := 0
	for n := 0; n < 8; n++ {
		want, ok := refDecodeAt(data, off)
		if ok && n == p {
			vRecord("tailvalid", 1) // the reference accepts a record formed by the tail
		}
		rec, err := it.next()
		if !ok {
			vAssert(err == ErrIterationDone, "C08.iter.stops-at-first-invalid")
			break
		}
		vAssert(err == nil, "C08.iter.accepts-valid")
		if err != nil {
			return
		}
		vAssert((rec.rtype == recordTypeDelete) == want.del, "C08.iter.type")
		vAssert(vEqBytes(rec.key, want.key), "C08.iter.key")
		vAssert(vEqBytes(rec.value, want.value), "C08.iter.value")
		vAssert(int(rec.offset) == headerSize+off, "C08.iter.offset")
		vAssert(rec.segmentID == 0, "C08.iter.segid")
		off += want.size
		if n >= p {
			vCover("C08.iter.record-from-tail-accepted")
		}
	}
	vAssert(vFileSize(fsys, name) == int64(headerSize+off), "C08.iter.truncated-to-valid-prefix")
	if off < len(data) {
		vCover("C08.iter.tail-discarded")
	}
	_, err = it.next()
	vAssert(err == ErrIterationDone, "C08.iter.done-again")
	vCover("C08.iter.done")
}

func H_C08_iter_q()   { c := vCase(); hC08iter(c%2, 6+c/2, 0) } // p in {0,1}, T = 6..
func H_C08_iter_s()   { c := vCase(); hC08iter(c%2, c/2, 0) }   // short tails T = 0..5
func H_C08_crcval()   { hC08iter(vCase()%2, 16, 2) }
func H_C08_iter_big() { c := vCase(); hC08iter(c%2, 6+c/2, 1) } // claimed size > 64

// hC08two: a damaged (older) segment followed by an intact newer one: after the
// accepted prefix of the first, every record of the second is still replayed.
func hC08two(p, T int) {
	opts := (&Options{FileSystem: fs.Mem}).copyWithDefaults("c08b")
	fsys := opts.FileSystem
	body := vValidRecords(p)
	tail := vBytes("tail", T)
	if T >= 6 {
		kl := uint32(tail[0]) | uint32(tail[1])<<8
		vl := (uint32(tail[2]) | uint32(tail[3])<<8 | uint32(tail[4])<<16 | uint32(tail[5])<<24) & 0x7fffffff
		vAssume(vl <= 64)
		vAssume(kl+vl <= 64)
	}
	name1 := segmentName(0, 1)
	vFixTailCRC(tail)
	vWriteFile(fsys, name1, refHeader(), body, tail)
	data := append(append([]byte{}, body...), tail...)
	k2 := vBytes("k2", 2)
	v2 := vBytes("v2", 1)
	name2 := segmentName(1, 2)
	vWriteFile(fsys, name2, refHeader(), refEncode(k2, v2, false))
	dl := &datalog{opts: opts}
	seg1, err := dl.openSegment(name1, 0, 1)
	vAssert(err == nil, "C08.two.open1")
	seg2, err2 := dl.openSegment(name2, 1, 2)
	vAssert(err2 == nil, "C08.two.open2")
	if err != nil || err2 != nil {
		return
	}
	it := newRecoveryIterator([]*segment{seg1, seg2})
	off := 0
	for n := 0; n < 8; n++ {
		want, ok := refDecodeAt(data, off)
		if !ok {
			break
		}
		if n == p {
			vRecord("tailvalid", 1)
		}
		rec, err := it.next()
		vAssert(err == nil, "C08.two.accepts-valid")
		if err != nil {
			return
		}
		vAssert(vEqBytes(rec.key, want.key) && rec.segmentID == 0, "C08.two.first-segment-record")
		off += want.size
	}
	rec, err := it.next()
	vAssert(err == nil, "C08.two.continues-with-next-segment")
	if err != nil {
		return
	}
	vAssert(rec.segmentID == 1 && int(rec.offset) == headerSize, "C08.two.second.position")
	vAssert(vEqBytes(rec.key, k2) && vEqBytes(rec.value, v2) && rec.rtype == recordTypePut, "C08.two.second.record")
	_, err = it.next()
	vAssert(err == ErrIterationDone, "C08.two.done")
	vAssert(vFileSize(fsys, name1) == int64(headerSize+off), "C08.two.first-truncated")
	vAssert(vFileSize(fsys, name2) == int64(headerSize+10+3), "C08.two.second-untouched")
	if off < len(data) {
		vCover("C08.two.damaged-then-intact")
	}
	vCover("C08.two.done")
}

func H_C08_two() { c := vCase(); hC08two(c%2, c/2) }

// ---- CRC-32 lemma: a single flipped bit always changes the checksum ----

func vCRCTable() []uint32 {
	t := make([]uint32, 256)
	for i := 0; i < 256; i++ {
		c := uint32(i)
		for j := 0; j < 8; j++ {
			if c&1 == 1 {
				c = c>>1 ^ 0xedb88320
			} else {
				c >>= 1
			}
		}
		t[i] = c
	}
	return t
}

func crcStep(t []uint32, s uint32, b byte) uint32 { return vLookup32(t, byte(s)^b) ^ (s >> 8) }

// H_C08_crc: the byte-wise CRC-32 (IEEE) update step is injective in the state
// for a fixed byte and injective in the byte for a fixed state (both decided by
// the solver for all 2^32 x 2^32 x 2^8 resp. 2^32 x 2^8 x 2^8 values). By
// induction over the remaining bytes, two inputs of equal length that differ in
// exactly one byte - in particular in one bit - have different checksums, for
// records of any length. The step table is tied to hash/crc32 by concrete
// vectors. With H_C08_iter (all 32 bits of the stored checksum are compared with
// the CRC of all preceding bytes of the record) this gives the property's
// single-bit-flip clause.
func H_C08_crc() {
	t := vCRCTable()
	for _, msg := range []string{"", "a", "123456789", "pogreb\x0e\xfd record"} {
		c := ^uint32(0)
		for i := 0; i < len(msg); i++ {
			c = crcStep(t, c, msg[i])
		}
		vAssert(^c == crc32.ChecksumIEEE([]byte(msg)), "C08.crc.step-function-is-crc32-ieee")
	}
	s1, s2, b := vU32("s1"), vU32("s2"), vU8("b")
	vAssume(s1 != s2)
	vAssert(crcStep(t, s1, b) != crcStep(t, s2, b), "C08.crc.step-injective-in-state")
	s, b1, b2 := vU32("s"), vU8("b1"), vU8("b2")
	vAssume(b1 != b2)
	vAssert(crcStep(t, s, b1) != crcStep(t, s, b2), "C08.crc.step-injective-in-byte")
	vCover("C08.crc.done")
}

// hC08boundary: one valid record sized so that the symbolic tail begins d bytes
// before the end of bufio's 4096-byte buffer (the reader starts at the 512-byte
// header): header, key, value and checksum of a tail record straddle the refill.
func hC08boundary(d, T int) {
	opts := (&Options{FileSystem: fs.Mem}).copyWithDefaults("c08c")
	fsys := opts.FileSystem
	k := vBytes("bk", 1)
	vlen := 4096 - d - 11
	v := make([]byte, vlen)
	for i := range v {
		v[i] = byte(i * 13)
	}
	sv := vBytes("bv", 2)
	v[0], v[vlen-1] = sv[0], sv[1]
	body := refEncode(k, v, false)
	tail := vBytes("tail", T)
	kl := uint32(tail[0]) | uint32(tail[1])<<8
	vl := (uint32(tail[2]) | uint32(tail[3])<<8 | uint32(tail[4])<<16 | uint32(tail[5])<<24) & 0x7fffffff
	vAssume(vl <= 16)
	vAssume(kl+vl <= 16)
	name := segmentName(0, 1)
	vFixTailCRC(tail)
	vWriteFile(fsys, name, refHeader(), body, tail)
	data := append(append([]byte{}, body...), tail...)
	dl := &datalog{opts: opts}
	seg, err := dl.openSegment(name, 0, 1)
	vAssert(err == nil, "C08.boundary.opensegment")
	if err != nil {
		return
	}
	it := newRecoveryIterator([]*segment{seg})
	off := 0
	for n := 0; n < 4; n++ {
		want, ok := refDecodeAt(data, off)
		if ok && n == 1 {
			vRecord("tailvalid", 1)
		}
		rec, err := it.next()
		if !ok {
			vAssert(err == ErrIterationDone, "C08.boundary.stops-at-first-invalid")
			break
		}
		vAssert(err == nil, "C08.boundary.accepts-valid")
		if err != nil {
			return
		}
		vAssert(vEqBytes(rec.key, want.key) && vEqBytes(rec.value, want.value), "C08.boundary.record")
		vAssert(int(rec.offset) == headerSize+off, "C08.boundary.offset")
		off += want.size
		if n >= 1 {
			vCover("C08.boundary.record-across-buffer-refill-accepted")
		}
	}
	vAssert(vFileSize(fsys, name) == int64(headerSize+off), "C08.boundary.truncated-to-valid-prefix")
	vCover("C08.boundary.done")
}

// case = d (0..11): the tail starts d bytes before the buffer boundary; T = 14 symbolic bytes
func H_C08_boundary() { hC08boundary(vCase()%12, 14) }
