package pogreb

import (
	"time"

	"github.com/akrylysov/pogreb/fs"
)

// vPublicOp runs one public method (kind) on key k; returns (err != nil).
// kinds: 0 Put 1 Delete 2 Get 3 GetAppend 4 Has 5 Count 6 Items/Next x2 7 Sync
// 8 Compact 9 FileSize 10 Metrics 11 Backup 12 Close
const vNumPublicOps = 13

func vPublicOp(db *DB, kind int, key, val []byte, tag string) (failed bool) {
	switch kind {
	case 0:
		return db.Put(key, val) != nil
	case 1:
		return db.Delete(key) != nil
	case 2:
		_, err := db.Get(key)
		return err != nil
	case 3:
		_, err := db.GetAppend(key, []byte{1})
		return err != nil
	case 4:
		_, err := db.Has(key)
		return err != nil
	case 5:
		_ = db.Count()
		return false
	case 6:
		it := db.Items()
		_, _, err := it.Next()
		_, _, err2 := it.Next()
		return (err != nil && err != ErrIterationDone) || (err2 != nil && err2 != ErrIterationDone)
	case 7:
		return db.Sync() != nil
	case 8:
		_, err := db.Compact()
		return err != nil
	case 9:
		_, err := db.FileSize()
		return err != nil
	case 10:
		_ = db.Metrics()
		return false
	case 11:
		return db.Backup("c10bk"+tag) != nil
	case 12:
		return db.Close() != nil
	}
	return false
}

// hC10race: two threads each run one public method concurrently (kinds from
// the case / a symbolic choice), the lockset monitor is on: no panic, no
// deadlock, no unsynchronised access to pogreb-owned state on any schedule.
// If one of them is Close, the other either fails or its effect is in the
// reopened database.
func hC10race(layout int) {
	n := 2
	vlen := 2
	rec := 10 + 8 + vlen
	opts := smallOpts(fs.Mem, 2, rec)
	dir := "c10"
	db, err := Open(dir, opts)
	vAssert(err == nil, "C10.open")
	if err != nil {
		return
	}
	r := newRef(n, 8)
	vConstrainHashes(db, r, layout, true)
	applyOp(db, r, 0, 0, vlen, "C10.prefix")
	applyOp(db, r, 0, 1, vlen, "C10.prefix")
	applyOp(db, r, 0, 0, vlen, "C10.prefix")
	k1 := vCase() % vNumPublicOps
	k2 := vChoice("kind2", vNumPublicOps)
	v1 := vBytes("v1", vlen)
	v2 := vBytes("v2", vlen)
	var f1, f2 bool
	vFlag("lockset", 1)
	vGo(func() { f1 = vPublicOp(db, k1, r.keys[0], v1, "a") })
	vGo(func() { f2 = vPublicOp(db, k2, r.keys[1], v2, "b") })
	vJoin()
	vFlag("lockset", 0)
	// no lock is left behind: the handle still answers (or fails), it does not hang
	_ = db.Count()
	_, _ = db.Has(r.keys[0])
	closed := k1 == 12 || k2 == 12
	if !closed {
		vAssert(!f1 || k1 == 8, "C10.op1-succeeds") // Compact may report errBusy
		vAssert(!f2 || k2 == 8, "C10.op2-succeeds")
		vAssert(db.Close() == nil, "C10.close")
	} else {
		vCover("C10.close-raced")
	}
	// expected contents: an operation that reported success took effect
	exp := r.clone()
	if k1 == 0 && !f1 {
		exp.present[0], exp.val[0] = true, v1
	}
	if k1 == 1 && !f1 {
		exp.present[0], exp.val[0] = false, nil
	}
	if k2 == 0 && !f2 {
		exp.present[1], exp.val[1] = true, v2
	}
	if k2 == 1 && !f2 {
		exp.present[1], exp.val[1] = false, nil
	}
	fs.VerifDropHandles() // a failed Close may leave the lock: reopening then recovers
	db2, err := Open(dir, opts)
	vAssert(err == nil, "C10.reopen")
	if err != nil {
		return
	}
	// with Close racing, a write that failed must have no effect and one that succeeded must be there;
	// a failed write is allowed only if Close was involved
	if !closed {
		checkReads(db2, exp, "C10.after")
	} else {
		mOK := stateMatches(db2, exp, "C10.after")
		vAssert(mOK, "C10.close-race.effect-iff-success")
	}
	vCover("C10.done")
}

func H_C10_race() { hC10race(0) }

// H_C10_closed: every public method on a closed database: no panic, no effect on contents.
func H_C10_closed() {
	n := 2
	vlen := 2
	opts := smallOpts(fs.Mem, 2, 10+8+vlen)
	dir := "c10c"
	db, err := Open(dir, opts)
	vAssert(err == nil, "C10c.open")
	if err != nil {
		return
	}
	r := newRef(n, 8)
	applyOp(db, r, 0, 0, vlen, "C10c.prefix")
	applyOp(db, r, 0, 1, vlen, "C10c.prefix")
	it := db.Items()
	vAssert(db.Close() == nil, "C10c.close")
	kind := vCase() % vNumPublicOps
	v := vBytes("v", vlen)
	failed := vPublicOp(db, kind, r.keys[0], v, "c")
	if kind == 0 || kind == 1 {
		vAssert(failed, "C10c.write-on-closed-db-fails")
	}
	_, _, _ = it.Next()
	db2, err := Open(dir, opts)
	vAssert(err == nil, "C10c.reopen")
	if err != nil {
		return
	}
	checkReads(db2, r, "C10c.contents-unchanged")
	vCover("C10c.done")
}

// H_C10_worker: the background sync/compaction worker (context, tickers and
// select are modelled: a ticker may fire at any scheduling point, at most
// tickBudget times) runs alongside the caller's operations and Close:
// no panic, no deadlock, lock discipline, results as without the worker, and
// after Close returns no goroutine started by the database is left.
func H_C10_worker() {
	n := 2
	vlen := 2
	rec := 10 + 8 + vlen
	mk := func(bg bool) *Options {
		o := smallOpts(fs.Mem, 2, rec)
		if bg {
			mode := vCase() % 3
			if mode != 1 {
				o.BackgroundSyncInterval = time.Second
			}
			if mode != 0 {
				o.BackgroundCompactionInterval = time.Second
			}
		}
		return o
	}
	vFlag("tickBudget", 1)
	vFlag("lockset", 1)
	dir := "c10w"
	db, err := Open(dir, mk(true))
	vAssert(err == nil, "C10w.open")
	if err != nil {
		return
	}
	vAssert(vLiveThreads() == 2 || !vSymbolic(), "C10w.worker-started")
	r := newRef(n, 8)
	applyOp(db, r, 0, 0, vlen, "C10w.op")
	applyOp(db, r, 0, 0, vlen, "C10w.op")
	code := vChoice("op", 2*n)
	op, k := decodeOp(code, n)
	applyOp(db, r, op, k, vlen, "C10w.op")
	vAssert(db.Close() == nil, "C10w.close")
	vFlag("lockset", 0)
	vAssert(vLiveThreads() == 1, "C10w.no-goroutine-left-after-close")
	db2, err := Open(dir, mk(false))
	vAssert(err == nil, "C10w.reopen")
	if err != nil {
		return
	}
	checkReads(db2, r, "C10w.after")
	checkItems(db2, r, "C10w.after")
	vCover("C10w.done")
}

// H_C10_os: two concurrent readers (Get/GetAppend/Has/Items by case and choice)
// on the plain OS file system (kernel model), lockset monitor on: the file
// objects of package fs must not be written by readers that hold only the shared lock.
func H_C10_os() {
	n := 2
	vlen := 2
	rec := 10 + 8 + vlen
	db, err := Open("c10os", smallOpts(fs.OS, 2, rec))
	vAssert(err == nil, "C10os.open")
	if err != nil {
		return
	}
	r := newRef(n, 8)
	applyOp(db, r, 0, 0, vlen, "C10os.prefix")
	applyOp(db, r, 0, 1, vlen, "C10os.prefix")
	readers := []int{2, 3, 4, 6}
	k1 := readers[vCase()%len(readers)]
	k2 := readers[vChoice("kind2", len(readers))]
	var g1, g2 []byte
	vFlag("lockset", 1)
	vGo(func() {
		if k1 == 2 {
			g1, _ = db.Get(r.keys[0])
		} else {
			vPublicOp(db, k1, r.keys[0], nil, "a")
		}
	})
	vGo(func() {
		if k2 == 2 {
			g2, _ = db.Get(r.keys[1])
		} else {
			vPublicOp(db, k2, r.keys[1], nil, "b")
		}
	})
	vJoin()
	vFlag("lockset", 0)
	if k1 == 2 {
		vAssert(g1 != nil && vEqBytes(g1, r.val[0]), "C10os.get1")
	}
	if k2 == 2 {
		vAssert(g2 != nil && vEqBytes(g2, r.val[1]), "C10os.get2")
	}
	vCover("C10os.done")
}

// H_C10_mmap: an iterator racing Compact (case 0) or Close (case 1) on the
// memory-mapped file system (kernel model, mapping scaled to 1 KiB): the scanner
// thread calls Next until done, the other thread removes/unmaps the segment the
// queued items came from, at every interleaving of their lock acquisitions.
// Touching an unmapped view is a fault obligation of the engine; every pair that
// Next returns must be one that was put.
func H_C10_mmap() {
	n := 2
	vlen := 2
	rec := 10 + 8 + vlen
	db, err := Open("c10mm", smallOpts(fs.OSMMap, 2, rec))
	vAssert(err == nil, "C10mm.open")
	if err != nil {
		return
	}
	r := newRef(n, 8)
	// both keys in one bucket: one fetch queues both items
	vAssume(db.hash(r.keys[0])&7 == db.hash(r.keys[1])&7)
	v0 := vBytes("val", vlen)
	v1 := vBytes("val", vlen)
	v0b := vBytes("val", vlen)
	vAssert(db.Put(r.keys[0], v0) == nil, "C10mm.put")
	vAssert(db.Put(r.keys[1], v1) == nil, "C10mm.put")
	vAssert(db.Put(r.keys[0], v0b) == nil, "C10mm.put") // segment 0 now holds a dead record
	closing := vCase()%2 == 1
	it := db.Items()
	vGo(func() {
		for j := 0; j < 4; j++ {
			k, v, err := it.Next()
			if err != nil {
				// ErrIterationDone, or an error because the database was closed
				vAssert(err == ErrIterationDone || closing, "C10mm.next.err")
				if !closing {
					vAssert(j == 2, "C10mm.scan-returns-both-keys-once")
				}
				break
			}
			if len(k) == 8 && k[0] == r.keys[0][0] {
				vAssert(vEqBytes(k, r.keys[0]), "C10mm.key0")
				vAssert(vOr(vEqBytes(v, v0), vEqBytes(v, v0b)), "C10mm.value0")
			} else {
				vAssert(vEqBytes(k, r.keys[1]), "C10mm.key1")
				vAssert(vEqBytes(v, v1), "C10mm.value1")
			}
			vCover("C10mm.next-returned-an-item")
		}
	})
	vGo(func() {
		if closing {
			vAssert(db.Close() == nil, "C10mm.close")
		} else {
			cr, err := db.Compact()
			vAssert(err == nil, "C10mm.compact")
			if cr.CompactedSegments > 0 {
				vCover("C10mm.segment-unmapped-by-compaction")
			}
		}
	})
	vJoin()
	vCover("C10mm.done")
}

// H_C10_filesize: FileSize takes no database lock: its directory scan (ReadDir,
// then an lstat per entry; scheduling points of the kernel model, engine flag
// dirYield) runs against a Compact thread that unlinks a segment in between.
// FileSize may report an error for the vanished file but must not panic, and
// without an error the size is positive.
func H_C10_filesize() {
	n := 2
	vlen := 2
	rec := 10 + 8 + vlen
	db, err := Open("c10fs", smallOpts(fs.OS, 2, rec))
	vAssert(err == nil, "C10fs.open")
	if err != nil {
		return
	}
	r := newRef(n, 8)
	applyOp(db, r, 0, 0, vlen, "C10fs.prefix")
	applyOp(db, r, 0, 0, vlen, "C10fs.prefix")
	applyOp(db, r, 0, 0, vlen, "C10fs.prefix") // segment 0 holds only dead records
	var size int64
	var ferr error
	vFlag("dirYield", 1)
	vGo(func() { size, ferr = db.FileSize() })
	vGo(func() {
		cr, err := db.Compact()
		vAssert(err == nil, "C10fs.compact")
		if cr.CompactedSegments > 0 {
			vCover("C10fs.segment-removed")
		}
	})
	vJoin()
	vFlag("dirYield", 0)
	if ferr == nil {
		vAssert(size > 0, "C10fs.size")
	} else {
		vCover("C10fs.filesize-reported-the-vanished-file")
	}
	checkReads(db, r, "C10fs.after")
	vCover("C10fs.done")
}
