package pogreb

import "github.com/akrylysov/pogreb/fs"

type scanItem struct {
	k   int // key index (-1 unknown)
	v   []byte
	ret int // logical time at which Next returned
}

type scanWrite struct {
	op, k     int
	v         []byte
	call, ret int
}

// hC11scan: a full Items scan (thread T1) while a writer (thread T2) puts new
// keys (forcing index splits that move keys between buckets during the scan),
// overwrites and deletes. Truthful: every returned pair is a value that was put
// for that key by an operation called before that Next returned. Complete:
// every key that exists with an unchanged value for the whole scan is returned
// at least once. After ErrIterationDone a further Next (no growth in between)
// returns ErrIterationDone again.
// low three hash bits of k0..k4 per pattern (full hashes stay symbolic and distinct):
// pattern 0: k0,k1 in bucket 1 (they move to bucket 3 when bucket 1 splits), k2 in bucket 0
// pattern 1: everything in one chain; pattern 2: spread out
var c11patterns = [][]uint32{{3, 3, 0, 1, 2}, {1, 1, 1, 1, 1}, {0, 2, 1, 3, 4}}

func vPinLowBits(db *DB, r *refMap, pat []uint32) {
	for i := 0; i < r.n; i++ {
		h := db.hash(r.keys[i])
		vAssume(h&7 == pat[i])
		for j := 0; j < i; j++ {
			vAssume(h != db.hash(r.keys[j]))
		}
	}
}

func hC11scan(pre, nops, layout int, withCompact bool) {
	n := pre + 2
	vlen := 2
	opts := smallOpts(fs.Mem, 2, 10+8+vlen)
	db, err := Open("c11", opts)
	vAssert(err == nil, "C11.open")
	if err != nil {
		return
	}
	r := newRef(n, 8)
	vPinLowBits(db, r, c11patterns[layout])
	var writes []scanWrite
	for i := 0; i < pre; i++ {
		v := vBytes("val", vlen)
		vAssert(db.Put(r.keys[i], v) == nil, "C11.prefix.put")
		writes = append(writes, scanWrite{op: 0, k: i, v: v, call: 0, ret: 0})
	}
	if withCompact {
		// a dead record so that compaction has something to do
		v := vBytes("val", vlen)
		vAssert(db.Put(r.keys[0], v) == nil, "C11.prefix.put")
		writes = append(writes, scanWrite{op: 0, k: 0, v: v, call: 0, ret: 0})
	}
	ops := make([]scanWrite, nops)
	for i := range ops {
		var code int
		if i == 0 {
			code = (vCase() / 3) % (2 * n)
		} else {
			code = vChoice("op", 2*n)
		}
		ops[i].op, ops[i].k = decodeOp(code, n)
		if ops[i].op == 0 {
			ops[i].v = vBytes("wval", vlen)
		}
	}
	clock := 1
	var items []scanItem
	scanStart, scanEnd := 0, 0
	doneAgain := true
	vGo(func() {
		it := db.Items()
		clock++
		scanStart = clock
		for j := 0; j < 4*vMaxKeys; j++ {
			k, v, err := it.Next()
			clock++
			if err == ErrIterationDone {
				break
			}
			vAssert(err == nil, "C11.scan.next.err")
			if err != nil {
				return
			}
			ki := -1
			for i := 0; i < n; i++ {
				if len(k) == len(r.keys[i]) && len(k) > 0 && k[0] == r.keys[i][0] {
					ki = i
					vAssert(vEqBytes(k, r.keys[i]), "C11.scan.key-bytes")
				}
			}
			vAssert(ki >= 0, "C11.scan.unknown-key")
			items = append(items, scanItem{k: ki, v: v, ret: clock})
		}
		scanEnd = clock
		nb := db.index.numBuckets
		_, _, err := it.Next()
		if db.index.numBuckets == nb {
			doneAgain = err == ErrIterationDone
		}
		clock++
	})
	vGo(func() {
		for i := range ops {
			clock++
			ops[i].call = clock
			if ops[i].op == 0 {
				vAssert(db.Put(r.keys[ops[i].k], ops[i].v) == nil, "C11.writer.put")
			} else {
				vAssert(db.Delete(r.keys[ops[i].k]) == nil, "C11.writer.delete")
			}
			clock++
			ops[i].ret = clock
		}
	})
	if withCompact {
		vGo(func() {
			_, err := db.Compact()
			vAssert(err == nil, "C11.compact")
		})
	}
	vJoin()
	writes = append(writes, ops...)
	// truthful
	for _, itm := range items {
		if itm.k < 0 {
			continue
		}
		ok := false
		for _, w := range writes {
			if w.op == 0 && w.k == itm.k && w.call < itm.ret {
				ok = vOr(ok, vEqBytes(itm.v, w.v))
			}
		}
		vAssert(ok, "C11.scan.pair-was-put-before-next-returned")
	}
	// complete: keys present before the scan and never touched by the writer at all
	for i := 0; i < pre; i++ {
		touched := false
		for _, w := range ops {
			if w.k == i {
				touched = true
			}
		}
		if touched {
			continue
		}
		seen := 0
		for _, itm := range items {
			if itm.k == i {
				seen++
			}
		}
		vAssert(seen >= 1, "C11.scan.unchanged-key-returned-at-least-once")
	}
	vAssert(doneAgain, "C11.scan.done-stays-done")
	_ = scanStart
	_ = scanEnd
	if db.index.numBuckets > 2 {
		vCover("C11.scan.index-grew")
	}
	vCover("C11.scan.done")
}

// case = layout (3) x first writer op (2n)
func H_C11_scan_q() { c := vCase(); hC11scan(3, 2, c%3, false) }

// scanner against a Compact thread (no writer): case = layout
func H_C11_scan_c() { c := vCase(); hC11scan(3, 0, c%3, true) }
func H_C11_scan_t() { c := vCase(); hC11scan(3, 3, c%3, false) }
