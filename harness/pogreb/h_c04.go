package pogreb

import "github.com/akrylysov/pogreb/fs"

// observe builds a reference map from the database's own answers.
func observeState(db *DB, r *refMap) *refMap {
	o := r.clone()
	for i := 0; i < r.n; i++ {
		got, err := db.Get(r.keys[i])
		vAssert(err == nil, "observe.get.err")
		o.present[i] = got != nil
		o.val[i] = got
	}
	return o
}

// vSegmentSizesMatch: the in-memory append offset of every segment equals the
// real length of its file.
func vSegmentSizesMatch(db *DB, tag string) {
	for _, seg := range db.datalog.segments {
		if seg == nil {
			continue
		}
		st, err := seg.Stat()
		vAssert(err == nil, tag+".stat")
		if err == nil {
			vAssert(st.Size() == seg.size, tag+".segment-append-offset=file-length")
		}
	}
}

// vSegmentsWellFormed: after a recovery every segment file is exactly the header
// followed by valid records (nothing that a validating reader rejects is left).
func vSegmentsWellFormed(db *DB, tag string) {
	for _, seg := range db.datalog.segments {
		if seg == nil {
			continue
		}
		data := vReadWhole(db.opts.FileSystem, seg.name)
		vAssert(len(data) >= headerSize, tag+".segment-has-header")
		if len(data) < headerSize {
			continue
		}
		body := data[headerSize:]
		off := 0
		for n := 0; n < 64 && off < len(body); n++ {
			rec, ok := refDecodeAt(body, off)
			vExpect(ok, tag+".segment-holds-only-valid-records-after-recovery")
			if !ok {
				break
			}
			off += rec.size
		}
	}
}

// hC04: epoch 1 = prefix + one operation that is cut by a crash (torn write
// included); epoch 2 = recovering Open, itself cut by a crash at a symbolic
// file-system call or not; epoch 3 = Open, L2 acknowledged operations, process
// death; final recovery. Every acknowledged write of every epoch must be there.
func hC04(n, prefix, L2, vlen int) { hC04on(fs.Mem, n, prefix, L2, vlen) }

// hC04on: inner is fs.Mem (from source) or fs.OS (over the kernel model: Stat
// returns a snapshot there, not the live file)
func hC04on(inner fs.FileSystem, n, prefix, L2, vlen int) {
	drop := func() {
		if inner == fs.Mem {
			fs.VerifDropHandles()
		} else {
			vKernelDropHandles()
		}
	}
	cfs := &crashFS{inner: inner}
	rec := 10 + 8 + vlen
	dir := "c04"
	db, err := Open(dir, smallOpts(cfs, 2, rec))
	vAssert(err == nil, "C04.open")
	if err != nil {
		return
	}
	r := newRef(n, 8)
	for i := 0; i < prefix; i++ {
		applyOp(db, r, 0, i%n, vlen, "C04.prefix")
	}
	cfs.armed = true
	before := r.clone()
	after := r.clone()
	nops := 2*n + 1
	code := vCase() % nops
	op, k := decodeOp(code, n)
	var v []byte
	if op == 0 {
		v = vBytes("val", vlen)
	}
	refApply(after, op, k, v)
	crashed := vRunCrashable(func() { dbApply(&db, dir, smallOpts(cfs, 2, rec), after, op, k, v, "C04.e1") })
	if !crashed {
		before = after.clone()
	}
	if cfs.tears > 0 {
		vCover("C04.epoch1-torn-write")
	}
	drop()

	// epoch 2: recovery, possibly cut by a second crash
	cfs2 := &crashFS{inner: inner, armed: true}
	var db2 *DB
	crashed2 := vRunCrashable(func() {
		var err error
		db2, err = Open(dir, smallOpts(cfs2, 2, rec))
		vAssert(err == nil, "C04.recovering-open-succeeds")
	})
	if crashed2 {
		vCover("C04.crash-during-recovery")
		drop()
		db2, err = Open(dir, smallOpts(inner, 2, rec))
		vAssert(err == nil, "C04.second-recovering-open-succeeds")
		if err != nil {
			return
		}
	}
	if db2 == nil {
		return
	}
	cfs2.armed = false
	mA := stateMatches(db2, before, "C04.e2")
	mB := stateMatches(db2, after, "C04.e2")
	vAssert(vOr(mA, mB), "C04.recovered-state-is-before-or-after-inflight-op")
	checkSelfConsistent(db2, after, "C04.e2")
	vCheckLogInvariant(db2, "C04.e2")
	vSegmentsWellFormed(db2, "C04.e2")
	cur := observeState(db2, r)

	// epoch 3: acknowledged operations in the recovered session, then process death
	for step := 0; step < L2; step++ {
		code := vChoice("op2", 2*n+1)
		op, k := decodeOp(code, n)
		var v []byte
		if op == 0 {
			v = vBytes("val2", vlen)
		}
		refApply(cur, op, k, v)
		dbApply(&db2, dir, nil, cur, op, k, v, "C04.e3")
		// also inside the recovered session: appends go to the newest segment only
		vCheckLogInvariant(db2, "C04.e3.in-session")
	}
	drop()
	db3, err := Open(dir, smallOpts(inner, 2, rec))
	vAssert(err == nil, "C04.final-recovering-open-succeeds")
	if err != nil {
		return
	}
	vAssert(stateMatches(db3, cur, "C04.e3"), "C04.acked-writes-of-recovered-session-survive-next-recovery")
	checkSelfConsistent(db3, cur, "C04.e3")
	vSegmentSizesMatch(db3, "C04.e3")
	// recovering twice from the same image gives the same contents
	drop()
	db4, err := Open(dir, smallOpts(inner, 2, rec))
	vAssert(err == nil, "C04.recover-again-succeeds")
	if err != nil {
		return
	}
	vAssert(stateMatches(db4, cur, "C04.e4"), "C04.recovery-idempotent")
	vSegmentSizesMatch(db4, "C04.e4")
	vCover("C04.done")
}

func H_C04_q()       { hC04(2, 2, 1, 2) }
func H_C04_tear()    { hC04(2, 1, 1, 300) }
func H_C04_tear_os() { hC04on(fs.OS, 2, 1, 1, 300) }

// the second record starts 4 bytes before the 1024 boundary: a tear leaves a partial size header
func H_C04_tearhdr() { hC04(2, 1, 1, 490) }
func H_C04_t()       { hC04(2, 2, 2, 2) }

// vCheckLogInvariant: appends must go to the newest segment (recovery replays
// segments in sequence order, so a record appended to an older segment would be
// overridden by stale newer ones): at most one segment is unsealed and it has
// the highest sequence id.
func vCheckLogInvariant(db *DB, tag string) {
	var maxSeq uint64
	open := 0
	for _, seg := range db.datalog.segments {
		if seg != nil && seg.sequenceID > maxSeq {
			maxSeq = seg.sequenceID
		}
	}
	for _, seg := range db.datalog.segments {
		if seg != nil && !seg.meta.Full {
			open++
			vExpect(seg.sequenceID == maxSeq, tag+".unsealed-segment-is-the-newest")
		}
	}
	vExpect(open <= 1, tag+".at-most-one-unsealed-segment")
	vExpect(db.datalog.maxSequenceID >= maxSeq, tag+".maxSequenceID")
}

// hC04reuse: the first session compacts segment id 0 away and a rollover
// re-uses id 0 for the newest segment (physical id order != sequence order);
// then process death, recovery, acknowledged writes of symbolic size, process
// death, recovery.
func hC04reuse(n int) {
	big, small := 40, 2
	recBig := 10 + 8 + big
	dir := "c04r"
	mk := func() *Options { return smallOpts(fs.Mem, 2, recBig) }
	db, err := Open(dir, mk())
	vAssert(err == nil, "C04r.open")
	if err != nil {
		return
	}
	r := newRef(n, 8)
	put := func(d *DB, k, vlen int, tag string) {
		v := vBytes("val", vlen)
		refApply(r, 0, k, v)
		vAssert(d.Put(r.keys[k], v) == nil, tag)
	}
	put(db, 0, big, "C04r.p1")
	put(db, 0, big, "C04r.p2") // segment id 0 full, first record dead
	put(db, 1, big, "C04r.p3") // rollover: id 1 / seq 2
	cr, err := db.Compact()
	vAssert(err == nil, "C04r.compact")
	if cr.CompactedSegments > 0 {
		vCover("C04r.segment-id-0-compacted-away")
	}
	vlen := small
	if vChoice("vlen", 2) == 1 {
		vlen = big
	}
	put(db, 1, vlen, "C04r.p4")
	put(db, 0, big, "C04r.p5")
	reused := false
	var maxSeq uint64
	var maxID uint16
	for _, seg := range db.datalog.segments {
		if seg != nil && seg.sequenceID > maxSeq {
			maxSeq, maxID = seg.sequenceID, seg.id
		}
	}
	for _, seg := range db.datalog.segments {
		if seg != nil && seg.id > maxID {
			reused = true
		}
	}
	if reused {
		vCover("C04r.newest-segment-has-lower-id-than-an-older-one")
	}
	checkReads(db, r, "C04r.e1")
	fs.VerifDropHandles()
	db2, err := Open(dir, mk())
	vAssert(err == nil, "C04r.recovering-open-succeeds")
	if err != nil {
		return
	}
	checkReads(db2, r, "C04r.e2")
	vCheckLogInvariant(db2, "C04r.e2")
	for step := 0; step < 2; step++ {
		k := vChoice("k", n)
		vl := small
		if vChoice("vlen2", 2) == 1 {
			vl = big
		}
		put(db2, k, vl, "C04r.e2.put")
	}
	checkReads(db2, r, "C04r.e2b")
	fs.VerifDropHandles()
	db3, err := Open(dir, mk())
	vAssert(err == nil, "C04r.final-recovering-open-succeeds")
	if err != nil {
		return
	}
	checkReads(db3, r, "C04r.e3")
	vCheckLogInvariant(db3, "C04r.e3")
	checkItems(db3, r, "C04r.e3")
	vCover("C04r.done")
}

func H_C04_reuse() { hC04reuse(2) }
