package pogreb

// crashFS: process-crash model of C03/C04/C05 on top of fs.Mem (which is
// executed from its own source). Every *mutating* file-system call is a crash
// point: the harness forks "the process dies before this call is applied";
// for data writes additionally "applied up to a 512-byte-aligned file offset
// strictly inside the written range" (sector-atomic tearing). Directory
// operations are atomic. The crash is a panic that the harness recovers.

import (
	"os"

	"github.com/akrylysov/pogreb/fs"
)

type vCrashSignal struct{}

type crashFS struct {
	inner   fs.FileSystem
	armed   bool
	crashed bool
	calls   int
	tears   int
}

func (c *crashFS) point() {
	if c.armed && c.crashed {
		// the process is dead: every other thread dies at its next file-system call
		panic(vCrashSignal{})
	}
	if !c.armed || c.crashed {
		return
	}
	c.calls++
	if vChoice("crash", 2) == 1 {
		c.crashed = true
		vCover("crash.before-fs-call")
		panic(vCrashSignal{})
	}
}

func (c *crashFS) OpenFile(name string, flag int, perm os.FileMode) (fs.File, error) {
	if flag&os.O_TRUNC != 0 {
		c.point()
	} else if flag&os.O_CREATE != 0 {
		if _, err := c.inner.Stat(name); err != nil {
			c.point()
		}
	}
	f, err := c.inner.OpenFile(name, flag, perm)
	if err != nil {
		return nil, err
	}
	return &crashFile{File: f, c: c}, nil
}
func (c *crashFS) Stat(name string) (os.FileInfo, error) { return c.inner.Stat(name) }
func (c *crashFS) Remove(name string) error {
	c.point()
	return c.inner.Remove(name)
}
func (c *crashFS) Rename(o, n string) error {
	c.point()
	return c.inner.Rename(o, n)
}
func (c *crashFS) ReadDir(name string) ([]os.DirEntry, error) { return c.inner.ReadDir(name) }
func (c *crashFS) CreateLockFile(name string, perm os.FileMode) (fs.LockFile, bool, error) {
	c.point()
	l, ex, err := c.inner.CreateLockFile(name, perm)
	if err != nil {
		return nil, ex, err
	}
	return &crashLock{l: l, c: c}, ex, nil
}
func (c *crashFS) MkdirAll(path string, perm os.FileMode) error { return c.inner.MkdirAll(path, perm) }

type crashLock struct {
	l fs.LockFile
	c *crashFS
}

func (l *crashLock) Unlock() error {
	l.c.point()
	return l.l.Unlock()
}

type crashFile struct {
	fs.File
	c *crashFS
}

// tornWrite: the process dies during this write; a prefix up to a
// 512-aligned file offset strictly inside [off, off+len) may have been applied.
func (f *crashFile) tornWrite(p []byte, off int64) {
	c := f.c
	if !c.armed || c.crashed {
		return
	}
	first := (off/512 + 1) * 512
	n := 0
	for t := first; t < off+int64(len(p)); t += 512 {
		n++
	}
	if n == 0 {
		return
	}
	k := vChoice("tear", n+1)
	if k == 0 {
		return
	}
	cut := first + int64(k-1)*512 - off
	c.crashed = true
	c.tears++
	_, _ = f.File.WriteAt(p[:cut], off)
	vCover("crash.torn-write")
	panic(vCrashSignal{})
}

func (f *crashFile) WriteAt(p []byte, off int64) (int, error) {
	f.c.point()
	f.tornWrite(p, off)
	return f.File.WriteAt(p, off)
}

func (f *crashFile) Write(p []byte) (int, error) {
	// Sequential writes are gob payloads only. The real encoder may issue several Write calls
	// where the token model issues one, so they are not crash points of their own: the
	// truncating open before them is, and so is the next mutating call after them.
	return f.File.Write(p)
}

func (f *crashFile) Truncate(size int64) error {
	f.c.point()
	return f.File.Truncate(size)
}

// vRunCrashable runs f and reports whether the simulated process died in it.
func vRunCrashable(f func()) (crashed bool) {
	defer func() {
		if r := recover(); r != nil {
			if _, ok := r.(vCrashSignal); ok {
				crashed = true
				return
			}
			panic(r)
		}
	}()
	f()
	return false
}

// stateMatches: non-forking comparison of Get/Has for every key with ref.
func stateMatches(db *DB, r *refMap, tag string) bool {
	ok := true
	for i := 0; i < r.n; i++ {
		got, err := db.Get(r.keys[i])
		vAssert(err == nil, tag+".get.err")
		if r.present[i] {
			if got == nil {
				ok = false
			} else {
				ok = vAnd(ok, vEqBytes(got, r.val[i]))
			}
		} else if got != nil {
			ok = false
		}
	}
	ok = vAnd(ok, db.Count() == r.count())
	return ok
}

// checkSelfConsistent: Count, Has, Get and a full Items scan agree with each other.
func checkSelfConsistent(db *DB, r *refMap, tag string) {
	live := uint32(0)
	for i := 0; i < r.n; i++ {
		got, err := db.Get(r.keys[i])
		vAssert(err == nil, tag+".get.err")
		has, err := db.Has(r.keys[i])
		vAssert(err == nil, tag+".has.err")
		vAssert(has == (got != nil), tag+".has-agrees-with-get")
		if got != nil {
			live++
		}
	}
	vAssert(db.Count() == live, tag+".count-agrees-with-get")
	it := db.Items()
	total := uint32(0)
	for iter := 0; iter < 4*vMaxKeys; iter++ {
		k, v, err := it.Next()
		if err == ErrIterationDone {
			break
		}
		vAssert(err == nil, tag+".items.err")
		if err != nil {
			return
		}
		total++
		got, _ := db.Get(k)
		vAssert(got != nil && vEqBytes(got, v), tag+".items-agree-with-get")
	}
	vAssert(total == live, tag+".items-total-agrees")
}

// refApply applies op to the reference only.
func refApply(r *refMap, op, k int, v []byte) {
	switch op {
	case 0:
		r.present[k] = true
		r.val[k] = v
	case 1:
		r.present[k] = false
		r.val[k] = nil
	}
}

// dbApply runs one operation; ops: 0 put 1 delete 2 compact 3 sync 4 close+open.
func dbApply(pdb **DB, dir string, opts *Options, r *refMap, op, k int, v []byte, tag string) {
	db := *pdb
	switch op {
	case 0:
		vAssert(db.Put(r.keys[k], v) == nil, tag+".put.err")
	case 1:
		vAssert(db.Delete(r.keys[k]) == nil, tag+".delete.err")
	case 2:
		_, err := db.Compact()
		vAssert(err == nil, tag+".compact.err")
	case 3:
		vAssert(db.Sync() == nil, tag+".sync.err")
	case 4:
		// segment metadata (record counts, dead bytes, sealed flag) must survive a clean restart:
		// compaction eligibility and the choice of the segment to append to depend on it
		var ids []uint16
		var metas []segmentMeta
		for _, seg := range db.datalog.segments {
			if seg != nil {
				ids = append(ids, seg.id)
				metas = append(metas, *seg.meta)
			}
		}
		vAssert(db.Close() == nil, tag+".close.err")
		ndb, err := Open(dir, opts)
		if err == nil {
			for i, id := range ids {
				seg := ndb.datalog.segments[id]
				vExpect(seg != nil, tag+".reopen.segment-still-there")
				if seg != nil {
					vExpect(*seg.meta == metas[i], tag+".reopen.segment-metadata-preserved")
				}
			}
		}
		vAssert(err == nil, tag+".reopen.err")
		if err == nil {
			*pdb = ndb
			// after a clean restart appends still go to the newest segment only
			vCheckLogInvariant(ndb, tag+".reopen")
		}
	}
}

func decodeOp5(code, n int) (op, k int) {
	if code == 2*n+2 {
		return 4, 0
	}
	return decodeOp(code, n)
}
