package hash

// Replay-only replacement of internal/hash/seed.go (go test -overlay): the
// crypto/rand seed is pinned to the value of the solver's model so that a
// counterexample found with an arbitrary seed can be re-executed natively.

import (
	"os"
	"strconv"
	"strings"
)

var verifSeedCalls int

// RandSeed returns the pinned hash seed: the k-th call returns the k-th value of
// VERIF_HASHSEEDS if present, otherwise VERIF_HASHSEED.
func RandSeed() (uint32, error) {
	verifSeedCalls++
	if l := os.Getenv("VERIF_HASHSEEDS"); l != "" {
		parts := strings.Split(l, ",")
		if verifSeedCalls <= len(parts) {
			v, _ := strconv.ParseUint(parts[verifSeedCalls-1], 10, 32)
			return uint32(v), nil
		}
	}
	v, _ := strconv.ParseUint(os.Getenv("VERIF_HASHSEED"), 10, 32)
	return uint32(v), nil
}
