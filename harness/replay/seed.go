package hash

// Replay-only replacement of internal/hash/seed.go (go test -overlay): the
// crypto/rand seed is pinned to the value of the solver's model so that a
// counterexample found with an arbitrary seed can be re-executed natively.

import (
	"os"
	"strconv"
)

// RandSeed returns the pinned hash seed.
func RandSeed() (uint32, error) {
	v, _ := strconv.ParseUint(os.Getenv("VERIF_HASHSEED"), 10, 32)
	return uint32(v), nil
}
