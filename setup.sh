#!/bin/sh
# Build the SSAX engine from files on disk only (offline).
set -e
cd "$(dirname "$0")/engine"
export GOFLAGS=-mod=mod GOPROXY=off GOSUMDB=off GOTOOLCHAIN=local
go build -o ../bin/ssax .
