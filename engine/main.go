package main

import (
	"encoding/json"
	"flag"
	"fmt"
	"go/ast"
	"go/parser"
	"go/token"
	"go/types"
	"os"
	"path/filepath"
	"runtime/debug"
	"sort"
	"strings"
	"time"

	"golang.org/x/tools/go/packages"
	"golang.org/x/tools/go/ssa"
	"golang.org/x/tools/go/ssa/ssautil"
)

var (
	prog       *ssa.Program
	theSolver  *Solver
	verbose    bool
	traceExec  bool
	worklist   []*State
	violations []Violation
	covers     = map[string]int{}
	unwindFailures = map[string]int{}
	engineErrors   []string
)

type Stats struct {
	steps, calls, forks, feasQueries, feasUnknown, concretizations int
	obligations, dischargedConst, dischargedSolver, undischarged  int
	oblQueries, assumes, assumeKilled, fresh, fpAbstract, killed   int
	schedChoices, pathsDone, pathsDead, statesCreated, dischargedCore int
	fnsEncoded map[string]int
	stubs      map[string]int
	asserts    map[string]int
}

var stats = Stats{fnsEncoded: map[string]int{}, stubs: map[string]int{}, asserts: map[string]int{}}

func pushState(s *State) {
	worklist = append(worklist, s)
	stats.statesCreated++
}

func fatalf(f string, a ...interface{}) {
	fmt.Fprintf(os.Stderr, "ENCODING-ERROR: "+f+"\n", a...)
	os.Exit(2)
}

type Output struct {
	Harness        string            `json:"harness"`
	Case           int               `json:"case"`
	Scale          string            `json:"scale"`
	Paths          int               `json:"paths"`
	PathsDead      int               `json:"paths_dead"`
	States         int               `json:"states"`
	Forks          int               `json:"forks"`
	Steps          int               `json:"steps"`
	Calls          int               `json:"calls"`
	Obligations    int               `json:"obligations"`
	DischargedC    int               `json:"discharged_const"`
	DischargedS    int               `json:"discharged_solver"`
	Undischarged   int               `json:"undischarged"`
	Queries        map[string]int    `json:"queries"`
	FeasQueries    int               `json:"feasibility_queries"`
	CacheHits      int               `json:"cache_hits"`
	CoreHits       int               `json:"unsat_core_cache_hits"`
	SolverS        float64           `json:"solver_s"`
	WallS          float64           `json:"wall_s"`
	Violations     []Violation       `json:"violations"`
	ViolClasses    map[string]int    `json:"violation_classes"`
	Covers         map[string]int    `json:"covers"`
	Unwind         map[string]int    `json:"unwind_failures"`
	EngineErrors   []string          `json:"engine_errors"`
	Functions      map[string]int    `json:"functions_encoded"`
	Stubs          map[string]int    `json:"stubs"`
	Asserts        map[string]int    `json:"asserts"`
	FPAbstract     int               `json:"fp_abstractions"`
	Budget         string            `json:"budget_exhausted"`
	SamplePaths    []SamplePath      `json:"sample_paths"`
	Solver         string            `json:"solver"`
	Cross          map[string]int    `json:"cross_solver"`
	Exprs          int               `json:"exprs"`
}

type SamplePath struct {
	Hashes []HashTarget           `json:"hashes"`
	Seed   uint64                 `json:"seed"`
	Case   int                    `json:"case"`
	Trace  []Choice               `json:"trace"`
	Inputs map[string]interface{} `json:"inputs"`
	Obs    []string               `json:"obs"`
	Covers []string               `json:"covers"`
	PCLen  int                    `json:"pc_len"`
}

func main() {
	var (
		harness   = flag.String("harness", "", "harness function name (H_...)")
		pkgSel    = flag.String("pkg", "pogreb", "package of the harness: pogreb | fs | hash")
		repo      = flag.String("repo", "/repo", "repository root")
		hdir      = flag.String("hdir", "/verif/harness", "harness directory")
		scale     = flag.String("scale", "", "name=value,... constant rewrites")
		out       = flag.String("out", "", "output json")
		solver    = flag.String("solver", "z3", "z3 | z3-new | cvc5")
		cross     = flag.String("cross", "", "second solver for final obligations")
		tmo       = flag.Int("timeout", 10000, "per-query timeout ms")
		maxStates = flag.Int("maxstates", 2000000, "state budget")
		maxSec    = flag.Int("maxsec", 3000, "wall budget seconds")
		pin       = flag.String("pin", "", "pin vector json (translator validation)")
		tags      = flag.String("tags", "verif", "build tags")
		dumpFn    = flag.String("dump", "", "dump SSA of function and exit")
		emitOv    = flag.String("emit-overlay", "", "write scaled source files into this directory, print go-overlay json, exit")
	)
	caseList := flag.String("case", "0", "case index (vCase), or comma-separated list run sequentially")
	flag.BoolVar(&verbose, "v", false, "verbose")
	flag.BoolVar(&traceExec, "trace", false, "trace instructions")
	flag.IntVar(&unwindCap, "unwind", 200000, "loop unwinding cap")
	flag.Parse()
	debug.SetGCPercent(400)
	t0 := time.Now()

	if *pin != "" {
		b, err := os.ReadFile(*pin)
		if err != nil {
			fatalf("pin: %v", err)
		}
		pinned = &PinVector{}
		if err := json.Unmarshal(b, pinned); err != nil {
			fatalf("pin: %v", err)
		}
	}

	overlay := map[string][]byte{}
	addHarness := func(sub, dst string) {
		files, _ := filepath.Glob(filepath.Join(*hdir, sub, "*.go"))
		for _, f := range files {
			b, err := os.ReadFile(f)
			if err != nil {
				fatalf("%v", err)
			}
			overlay[filepath.Join(dst, "zz_verif_"+filepath.Base(f))] = b
		}
	}
	addHarness("pogreb", *repo)
	addHarness("fs", filepath.Join(*repo, "fs"))
	addHarness("hash", filepath.Join(*repo, "internal/hash"))
	if *scale != "" {
		for _, kv := range strings.Split(*scale, ",") {
			p := strings.SplitN(kv, "=", 2)
			if len(p) != 2 {
				fatalf("bad -scale %q", kv)
			}
			if err := rewriteConst(*repo, p[0], p[1], overlay); err != nil {
				fatalf("scale: %v", err)
			}
		}
	}

	if *emitOv != "" {
		os.MkdirAll(*emitOv, 0755)
		repl := map[string]string{}
		i := 0
		for path, src := range overlay {
			if strings.Contains(filepath.Base(path), "zz_verif_") {
				continue
			}
			i++
			dst := filepath.Join(*emitOv, fmt.Sprintf("scaled_%d_%s", i, filepath.Base(path)))
			os.WriteFile(dst, src, 0644)
			repl[path] = dst
		}
		b, _ := json.Marshal(repl)
		os.Stdout.Write(b)
		return
	}
	cfg := &packages.Config{Mode: packages.LoadAllSyntax, Dir: *repo, Overlay: overlay, BuildFlags: []string{"-tags=" + *tags},
		Env: append(os.Environ(), "GOFLAGS=-mod=mod", "GOPROXY=off", "GOSUMDB=off", "GOTOOLCHAIN=local")}
	pkgs, err := packages.Load(cfg, ".", "./fs", "./internal/hash")
	if err != nil {
		fatalf("load: %v", err)
	}
	nerr := 0
	packages.Visit(pkgs, nil, func(p *packages.Package) {
		for _, e := range p.Errors {
			fmt.Fprintf(os.Stderr, "load error: %v\n", e)
			nerr++
		}
	})
	if nerr > 0 {
		fatalf("%d package errors (tree does not type-check with the harness overlay)", nerr)
	}
	var spkgs []*ssa.Package
	prog, spkgs = ssautil.AllPackages(pkgs, ssa.InstantiateGenerics)
	prog.Build()
	var hpkg *ssa.Package
	for i, p := range pkgs {
		switch {
		case *pkgSel == "pogreb" && p.PkgPath == "github.com/akrylysov/pogreb",
			*pkgSel == "fs" && p.PkgPath == "github.com/akrylysov/pogreb/fs",
			*pkgSel == "hash" && p.PkgPath == "github.com/akrylysov/pogreb/internal/hash":
			hpkg = spkgs[i]
		}
	}
	if hpkg == nil {
		fatalf("package %s not found", *pkgSel)
	}
	if ep := prog.ImportedPackage("errors"); ep != nil {
		errStrT = types.NewPointer(ep.Type("errorString").Type())
	}
	if op := prog.ImportedPackage("os"); op != nil {
		osFileT = op.Type("File").Type()
	}
	if sp := prog.ImportedPackage("syscall"); sp != nil {
		errnoT = sp.Type("Errno").Type()
	}
	regKernel()
	if tp := prog.ImportedPackage("time"); tp != nil {
		tickerT = tp.Type("Ticker").Type()
		timeT = tp.Type("Time").Type()
	}
	for _, p := range []string{"github.com/akrylysov/pogreb", "github.com/akrylysov/pogreb/fs", "github.com/akrylysov/pogreb/internal/hash"} {
		regPrelude(p)
	}
	if *dumpFn != "" {
		f := hpkg.Func(*dumpFn)
		if f == nil {
			fatalf("no func %s", *dumpFn)
		}
		f.WriteTo(os.Stdout)
		return
	}
	hf := hpkg.Func(*harness)
	if hf == nil {
		fatalf("harness %s not found in %s", *harness, hpkg.Pkg.Path())
	}
	theSolver, err = newSolver(*solver, *tmo)
	if err != nil {
		fatalf("solver: %v", err)
	}
	defer theSolver.Close()
	var crossSolver *Solver
	if *cross != "" {
		crossSolver, err = newSolver(*cross, *tmo)
		if err != nil {
			fatalf("cross solver: %v", err)
		}
		defer crossSolver.Close()
		crossCheck = crossSolver
	}

	budget := ""
	var samples []SamplePath
	var caseNums []int
	for _, c := range strings.Split(*caseList, ",") {
		var n int
		fmt.Sscanf(c, "%d", &n)
		caseNums = append(caseNums, n)
	}
	for _, cn := range caseNums {
	caseIndex = cn
	if pinned != nil {
		pinned.next = 0
	}
	// initial state: run package initialisers of own packages, then the harness.
	st := newState()
	main := &Thread{id: 0, name: "main"}
	st.threads = []*Thread{main}
	// Build a tiny driver: frames are pushed in reverse order of execution.
	hfi := infoOf(hf)
	main.frames = append(main.frames, &Frame{fn: hf, info: hfi, regs: make([]Value, hfi.n), block: hf.Blocks[0], ret: retThread})
	var inits []*ssa.Function
	for i, p := range pkgs {
		if ownPackage(p.PkgPath) {
			if f := spkgs[i].Func("init"); f != nil {
				inits = append(inits, f)
			}
		}
	}
	for i := len(inits) - 1; i >= 0; i-- {
		f := inits[i]
		fi := infoOf(f)
		main.frames = append(main.frames, &Frame{fn: f, info: fi, regs: make([]Value, fi.n), block: f.Blocks[0], ret: retDiscard})
	}
	pushState(st)
	nsamp := 0
	for len(worklist) > 0 {
		s := worklist[len(worklist)-1]
		worklist = worklist[:len(worklist)-1]
		runState(s)
		if s.finished && !s.dead {
			stats.pathsDone++
			if nsamp < 2 && len(samples) < 8 {
				nsamp++
				sp := SamplePath{Case: cn, Trace: s.trace, Obs: s.obs, PCLen: len(s.pc)}
				if m := s.currentModel(); m != nil {
					sp.Inputs = s.inputsUnder(m)
					sp.Hashes, sp.Seed = hashTargets(m)
				}
				for c := range s.covers {
					sp.Covers = append(sp.Covers, c)
				}
				sort.Strings(sp.Covers)
				samples = append(samples, sp)
			}
		} else {
			stats.pathsDead++
		}
		if stats.statesCreated > *maxStates {
			budget = fmt.Sprintf("state budget %d exhausted with %d states pending", *maxStates, len(worklist))
			break
		}
		if time.Since(t0) > time.Duration(*maxSec)*time.Second {
			budget = fmt.Sprintf("wall budget %ds exhausted with %d states pending", *maxSec, len(worklist))
			break
		}
	}
	worklist = nil
	if budget != "" {
		break
	}
	}

	o := Output{Harness: *harness, Case: caseIndex, Scale: *scale, Paths: stats.pathsDone, PathsDead: stats.pathsDead, States: stats.statesCreated,
		Forks: stats.forks, Steps: stats.steps, Calls: stats.calls, Obligations: stats.obligations, DischargedC: stats.dischargedConst,
		DischargedS: stats.dischargedSolver, Undischarged: stats.undischarged, Queries: theSolver.Queries, FeasQueries: stats.feasQueries,
		CacheHits: theSolver.CacheHit, CoreHits: theSolver.CoreHit, SolverS: theSolver.Time.Seconds(), WallS: time.Since(t0).Seconds(), Violations: violations, ViolClasses: violClassCount, Covers: covers,
		Unwind: unwindFailures, EngineErrors: engineErrors, Functions: stats.fnsEncoded, Stubs: stats.stubs, Asserts: stats.asserts,
		FPAbstract: stats.fpAbstract, Budget: budget, SamplePaths: samples, Solver: *solver, Cross: crossStats, Exprs: exprCount}
	if o.Violations == nil {
		o.Violations = []Violation{}
	}
	b, _ := json.MarshalIndent(o, "", " ")
	if *out != "" {
		os.WriteFile(*out, b, 0644)
	} else {
		os.Stdout.Write(b)
	}
	fmt.Fprintf(os.Stderr, "%s case %d: paths=%d dead=%d states=%d steps=%d obligations=%d (const %d, solver %d, undischarged %d) violations=%d unwind=%d errors=%d solver=%.1fs wall=%.1fs %s\n",
		*harness, caseIndex, o.Paths, o.PathsDead, o.States, o.Steps, o.Obligations, o.DischargedC, o.DischargedS, o.Undischarged,
		len(violations), len(unwindFailures), len(engineErrors), o.SolverS, o.WallS, budget)
	if len(engineErrors) > 0 {
		os.Exit(2)
	}
}

var crossCheck *Solver
var crossStats = map[string]int{}

func runState(s *State) {
	defer func() {
		if r := recover(); r != nil {
			if e, ok := r.(engineErr); ok {
				msg := string(e) + " at " + s.where()
				if len(engineErrors) < 20 {
					engineErrors = append(engineErrors, msg)
				}
				fmt.Fprintf(os.Stderr, "ENCODING-ERROR: %s\n", msg)
				s.dead = true
				return
			}
			fmt.Fprintf(os.Stderr, "engine panic at %s\n", s.where())
			panic(r)
		}
	}()
	for !s.dead && !s.finished {
		s.step()
		if s.steps > 50000000 {
			panic(engineErr("step budget per path exceeded"))
		}
	}
	// count instructions per function lazily: not tracked per step for speed
}

// rewriteConst rewrites the value of a package-level constant in the overlay.
func rewriteConst(repo, name, val string, overlay map[string][]byte) error {
	dirs := []string{repo, filepath.Join(repo, "fs"), filepath.Join(repo, "internal/hash")}
	fset := token.NewFileSet()
	for _, d := range dirs {
		files, _ := filepath.Glob(filepath.Join(d, "*.go"))
		for _, f := range files {
			if strings.HasSuffix(f, "_test.go") {
				continue
			}
			src, ok := overlay[f]
			if !ok {
				var err error
				src, err = os.ReadFile(f)
				if err != nil {
					return err
				}
			}
			af, err := parser.ParseFile(fset, f, src, 0)
			if err != nil {
				return err
			}
			for _, decl := range af.Decls {
				gd, ok := decl.(*ast.GenDecl)
				if !ok || gd.Tok != token.CONST {
					continue
				}
				for _, sp := range gd.Specs {
					vs := sp.(*ast.ValueSpec)
					for i, n := range vs.Names {
						if n.Name == name && i < len(vs.Values) {
							a := fset.Position(vs.Values[i].Pos()).Offset
							b := fset.Position(vs.Values[i].End()).Offset
							nv := fmt.Sprintf("(%s + 0*(%s))", val, src[a:b])
							ns := append(append(append([]byte(nil), src[:a]...), []byte(nv)...), src[b:]...)
							overlay[f] = ns
							return nil
						}
					}
				}
			}
		}
	}
	return fmt.Errorf("constant %s not found", name)
}
