package main

// Hash-consed bit-vector / Boolean expression DAG with eager simplification.
// Width 0 means Bool. Widths 1..64 are ordinary bit-vectors; wider values
// exist only as OpConcat trees used as arguments of uninterpreted functions.

import (
	"fmt"
	"math/bits"
	"strings"
)

type Op uint8

const (
	OpConst Op = iota
	OpVar
	OpUF
	OpNot  // bool not
	OpAnd  // bool and
	OpOr   // bool or
	OpIte  // A ? B : C
	OpEq   // bool
	OpUlt  // bool
	OpUle  // bool
	OpSlt  // bool
	OpSle  // bool
	OpAdd
	OpSub
	OpMul
	OpUDiv
	OpURem
	OpSDiv
	OpSRem
	OpBAnd
	OpBOr
	OpBXor
	OpBNot
	OpShl
	OpLShr
	OpAShr
	OpConcat  // A high, B low
	OpExtract // K = hi<<16|lo ; of A
	OpSExt
)

var opNames = map[Op]string{
	OpNot: "not", OpAnd: "and", OpOr: "or", OpIte: "ite", OpEq: "=", OpUlt: "bvult", OpUle: "bvule",
	OpSlt: "bvslt", OpSle: "bvsle", OpAdd: "bvadd", OpSub: "bvsub", OpMul: "bvmul", OpUDiv: "bvudiv",
	OpURem: "bvurem", OpSDiv: "bvsdiv", OpSRem: "bvsrem", OpBAnd: "bvand", OpBOr: "bvor", OpBXor: "bvxor",
	OpBNot: "bvnot", OpShl: "bvshl", OpLShr: "bvlshr", OpAShr: "bvashr", OpConcat: "concat",
}

type Expr struct {
	Op      Op
	W       int // 0 = Bool
	A, B, C *Expr
	K       uint64
	Name    string
	Args    []*Expr
	id      int
	defined bool // emitted to solver as define-fun
}

type exprKey struct {
	op      Op
	w       int
	a, b, c int
	k       uint64
	name    string
}

var (
	exprTab   = map[exprKey]*Expr{}
	exprCount = 0
	allVars   []*Expr // OpVar nodes in creation order
	allUFs    = map[string]*Expr{} // name -> representative (for declarations)
	ufApps    []*Expr
)

func eid(e *Expr) int {
	if e == nil {
		return -1
	}
	return e.id
}

func intern(e Expr) *Expr {
	k := exprKey{e.Op, e.W, eid(e.A), eid(e.B), eid(e.C), e.K, e.Name}
	if e.Op == OpUF {
		var sb strings.Builder
		sb.WriteString(e.Name)
		for _, a := range e.Args {
			fmt.Fprintf(&sb, ",%d", a.id)
		}
		k.name = sb.String()
	}
	if x, ok := exprTab[k]; ok {
		return x
	}
	exprCount++
	n := new(Expr)
	*n = e
	n.id = exprCount
	exprTab[k] = n
	if e.Op == OpVar {
		allVars = append(allVars, n)
	}
	if e.Op == OpUF {
		if _, ok := allUFs[e.Name]; !ok {
			allUFs[e.Name] = n
		}
		ufApps = append(ufApps, n)
	}
	return n
}

func mask(w int) uint64 {
	if w >= 64 {
		return ^uint64(0)
	}
	return (uint64(1) << uint(w)) - 1
}

func Const(w int, v uint64) *Expr {
	if w == 0 {
		v &= 1
	} else if w <= 64 {
		v &= mask(w)
	}
	return intern(Expr{Op: OpConst, W: w, K: v})
}

var (
	True  = Const(0, 1)
	False = Const(0, 0)
)

func Bool(b bool) *Expr {
	if b {
		return True
	}
	return False
}

func Var(name string, w int) *Expr { return intern(Expr{Op: OpVar, W: w, Name: name}) }

func UF(name string, w int, args ...*Expr) *Expr {
	return intern(Expr{Op: OpUF, W: w, Name: name, Args: args})
}

func (e *Expr) IsConst() bool { return e.Op == OpConst }
func (e *Expr) IsTrue() bool  { return e == True }
func (e *Expr) IsFalse() bool { return e == False }

func sext64(v uint64, w int) int64 {
	if w >= 64 {
		return int64(v)
	}
	sh := uint(64 - w)
	return int64(v<<sh) >> sh
}

// ---------- Boolean ----------

func Not(a *Expr) *Expr {
	if a.W != 0 {
		panic("Not on bv")
	}
	if a.IsConst() {
		return Bool(a.K == 0)
	}
	if a.Op == OpNot {
		return a.A
	}
	return intern(Expr{Op: OpNot, W: 0, A: a})
}

func And(a, b *Expr) *Expr {
	if a.IsConst() {
		if a.K == 0 {
			return False
		}
		return b
	}
	if b.IsConst() {
		if b.K == 0 {
			return False
		}
		return a
	}
	if a == b {
		return a
	}
	if (a.Op == OpNot && a.A == b) || (b.Op == OpNot && b.A == a) {
		return False
	}
	if a.id > b.id {
		a, b = b, a
	}
	return intern(Expr{Op: OpAnd, W: 0, A: a, B: b})
}

func Or(a, b *Expr) *Expr {
	if a.IsConst() {
		if a.K == 1 {
			return True
		}
		return b
	}
	if b.IsConst() {
		if b.K == 1 {
			return True
		}
		return a
	}
	if a == b {
		return a
	}
	if (a.Op == OpNot && a.A == b) || (b.Op == OpNot && b.A == a) {
		return True
	}
	if a.id > b.id {
		a, b = b, a
	}
	return intern(Expr{Op: OpOr, W: 0, A: a, B: b})
}

func Implies(a, b *Expr) *Expr { return Or(Not(a), b) }

func Ite(c, a, b *Expr) *Expr {
	if c.IsConst() {
		if c.K == 1 {
			return a
		}
		return b
	}
	if a == b {
		return a
	}
	if a.W != b.W {
		panic(fmt.Sprintf("Ite width mismatch %d %d", a.W, b.W))
	}
	if a.W == 0 {
		if a.IsConst() && b.IsConst() {
			if a.K == 1 {
				return c
			}
			return Not(c)
		}
		if a.IsConst() {
			if a.K == 1 {
				return Or(c, b)
			}
			return And(Not(c), b)
		}
		if b.IsConst() {
			if b.K == 1 {
				return Or(Not(c), a)
			}
			return And(c, a)
		}
	}
	if c.Op == OpNot {
		return Ite(c.A, b, a)
	}
	return intern(Expr{Op: OpIte, W: a.W, A: c, B: a, C: b})
}

// B2BV converts a Bool to a bit-vector of width w (0/1).
func B2BV(b *Expr, w int) *Expr { return Ite(b, Const(w, 1), Const(w, 0)) }

// ---------- pieces (concat/extract normal form) ----------

type piece struct {
	src *Expr // nil => constant k
	lo  int
	w   int
	k   uint64
}

func pieces(e *Expr, out []piece) []piece {
	switch e.Op {
	case OpConcat:
		out = pieces(e.A, out)
		return pieces(e.B, out)
	case OpExtract:
		hi, lo := int(e.K>>16), int(e.K&0xffff)
		return append(out, piece{src: e.A, lo: lo, w: hi - lo + 1})
	case OpConst:
		if e.W <= 64 {
			return append(out, piece{w: e.W, k: e.K})
		}
	}
	return append(out, piece{src: e, lo: 0, w: e.W})
}

func piecesW(ps []piece) int {
	t := 0
	for _, p := range ps {
		t += p.w
	}
	return t
}

func pieceExpr(p piece) *Expr {
	if p.src == nil {
		return Const(p.w, p.k)
	}
	if p.lo == 0 && p.w == p.src.W {
		return p.src
	}
	return intern(Expr{Op: OpExtract, W: p.w, A: p.src, K: uint64(p.lo+p.w-1)<<16 | uint64(p.lo)})
}

func fromPieces(ps []piece) *Expr {
	// merge adjacent (ps is high -> low)
	m := make([]piece, 0, len(ps))
	for _, p := range ps {
		if p.w == 0 {
			continue
		}
		if len(m) > 0 {
			q := &m[len(m)-1] // q is higher part
			if q.src == nil && p.src == nil && q.w+p.w <= 64 {
				q.k = q.k<<uint(p.w) | p.k
				q.w += p.w
				continue
			}
			if q.src != nil && q.src == p.src && q.lo == p.lo+p.w {
				q.lo = p.lo
				q.w += p.w
				continue
			}
		}
		m = append(m, p)
	}
	if len(m) == 0 {
		panic("fromPieces: empty")
	}
	// build right-assoc from low end
	res := pieceExpr(m[len(m)-1])
	for i := len(m) - 2; i >= 0; i-- {
		hi := pieceExpr(m[i])
		res = intern(Expr{Op: OpConcat, W: hi.W + res.W, A: hi, B: res})
	}
	return res
}

// cutPieces returns bits [lo, lo+w) of the piece list (high->low order).
func cutPieces(ps []piece, lo, w int) []piece {
	total := piecesW(ps)
	out := []piece{}
	pos := total // bit position of the top of current piece
	hiWanted := lo + w
	for _, p := range ps {
		top := pos
		bot := pos - p.w
		pos = bot
		// intersection of [bot,top) with [lo,hiWanted)
		a := bot
		if lo > a {
			a = lo
		}
		b := top
		if hiWanted < b {
			b = hiWanted
		}
		if a >= b {
			continue
		}
		np := piece{src: p.src, w: b - a}
		if p.src == nil {
			np.k = (p.k >> uint(a-bot)) & mask(b-a)
		} else {
			np.lo = p.lo + (a - bot)
		}
		out = append(out, np)
	}
	return out
}

func Extract(e *Expr, hi, lo int) *Expr {
	if lo == 0 && hi == e.W-1 {
		return e
	}
	if hi >= e.W || lo < 0 || hi < lo {
		panic(fmt.Sprintf("Extract[%d:%d] of width %d", hi, lo, e.W))
	}
	if e.Op == OpConst && e.W <= 64 {
		return Const(hi-lo+1, e.K>>uint(lo))
	}
	// push extract through ite of constants? keep simple.
	ps := pieces(e, nil)
	return fromPieces(cutPieces(ps, lo, hi-lo+1))
}

func Concat(a, b *Expr) *Expr {
	ps := pieces(a, nil)
	ps = pieces(b, ps)
	return fromPieces(ps)
}

func ZExt(a *Expr, w int) *Expr {
	if w == a.W {
		return a
	}
	if w < a.W {
		panic("ZExt narrowing")
	}
	if a.IsConst() {
		return Const(w, a.K)
	}
	return Concat(Const(w-a.W, 0), a)
}

func SExt(a *Expr, w int) *Expr {
	if w == a.W {
		return a
	}
	if a.IsConst() {
		return Const(w, uint64(sext64(a.K, a.W)))
	}
	// if top piece is a zero constant, sext = zext
	ps := pieces(a, nil)
	if ps[0].src == nil && (ps[0].k>>(uint(ps[0].w)-1))&1 == 0 {
		return ZExt(a, w)
	}
	return intern(Expr{Op: OpSExt, W: w, A: a})
}

func Trunc(a *Expr, w int) *Expr {
	if w == a.W {
		return a
	}
	return Extract(a, w-1, 0)
}

// Convert integer a (signedness of source = srcSigned) to width w.
func Resize(a *Expr, w int, srcSigned bool) *Expr {
	if w == a.W {
		return a
	}
	if w < a.W {
		return Trunc(a, w)
	}
	if srcSigned {
		return SExt(a, w)
	}
	return ZExt(a, w)
}

// ---------- comparisons ----------

func Eq(a, b *Expr) *Expr {
	if a == b {
		return True
	}
	if a.W != b.W {
		panic(fmt.Sprintf("Eq width mismatch %d vs %d", a.W, b.W))
	}
	if a.IsConst() && b.IsConst() {
		return Bool(a.K == b.K)
	}
	if a.W == 0 {
		if a.IsConst() {
			if a.K == 1 {
				return b
			}
			return Not(b)
		}
		if b.IsConst() {
			if b.K == 1 {
				return a
			}
			return Not(a)
		}
	} else {
		pa := pieces(a, nil)
		pb := pieces(b, nil)
		if len(pa) > 1 || len(pb) > 1 {
			if r := eqPieces(pa, pb); r != nil {
				return r
			}
		}
		// ite with constant arms vs constant
		if b.IsConst() && a.Op == OpIte && a.B.IsConst() && a.C.IsConst() {
			return Ite(a.A, Bool(a.B.K == b.K), Bool(a.C.K == b.K))
		}
		if a.IsConst() && b.Op == OpIte && b.B.IsConst() && b.C.IsConst() {
			return Ite(b.A, Bool(b.B.K == a.K), Bool(b.C.K == a.K))
		}
	}
	if a.id > b.id {
		a, b = b, a
	}
	return intern(Expr{Op: OpEq, W: 0, A: a, B: b})
}

func rawEq(a, b *Expr) *Expr {
	if a == b {
		return True
	}
	if a.IsConst() && b.IsConst() {
		return Bool(a.K == b.K)
	}
	if a.id > b.id {
		a, b = b, a
	}
	return intern(Expr{Op: OpEq, W: 0, A: a, B: b})
}

// eqPieces splits an equality along the common refinement of piece boundaries.
func eqPieces(pa, pb []piece) *Expr {
	total := piecesW(pa)
	cuts := map[int]bool{}
	pos := total
	for _, p := range pa {
		pos -= p.w
		cuts[pos] = true
	}
	pos = total
	for _, p := range pb {
		pos -= p.w
		cuts[pos] = true
	}
	if len(cuts) <= 1 {
		return nil
	}
	res := True
	top := total
	for bot := total - 1; bot >= 0; bot-- {
		if !cuts[bot] {
			continue
		}
		w := top - bot
		if w > 64 {
			// too wide for a constant piece compare; do plain eq on sub-expr
			ea := fromPieces(cutPieces(pa, bot, w))
			eb := fromPieces(cutPieces(pb, bot, w))
			res = And(res, rawEq(ea, eb))
		} else {
			ea := fromPieces(cutPieces(pa, bot, w))
			eb := fromPieces(cutPieces(pb, bot, w))
			res = And(res, rawEq(ea, eb))
		}
		if res.IsFalse() {
			return False
		}
		top = bot
	}
	return res
}

func Ne(a, b *Expr) *Expr { return Not(Eq(a, b)) }

func Ult(a, b *Expr) *Expr {
	if a == b {
		return False
	}
	if a.IsConst() && b.IsConst() {
		return Bool(a.K < b.K)
	}
	if b.IsConst() && b.K == 0 {
		return False
	}
	if a.IsConst() && a.K == mask(a.W) {
		return False
	}
	if b.IsConst() && b.K == 1 {
		return Eq(a, Const(a.W, 0))
	}
	// bound by leading zero piece: if a's top pieces are zero and b const large
	if b.IsConst() {
		if ub, ok := upperBound(a); ok && ub < b.K {
			return True
		}
	}
	if a.IsConst() {
		if ub, ok := upperBound(b); ok && ub <= a.K {
			return False
		}
	}
	return intern(Expr{Op: OpUlt, W: 0, A: a, B: b})
}

// upperBound gives a cheap syntactic upper bound for an unsigned value.
func upperBound(e *Expr) (uint64, bool) {
	if e.W > 64 {
		return 0, false
	}
	switch e.Op {
	case OpConst:
		return e.K, true
	case OpConcat:
		ps := pieces(e, nil)
		var v uint64
		for _, p := range ps {
			if p.src == nil {
				v = v<<uint(p.w) | p.k
			} else {
				v = v<<uint(p.w) | mask(p.w)
			}
		}
		return v, true
	case OpIte:
		a, ok1 := upperBound(e.B)
		b, ok2 := upperBound(e.C)
		if ok1 && ok2 {
			if a > b {
				return a, true
			}
			return b, true
		}
	}
	return mask(e.W), true
}

func Ule(a, b *Expr) *Expr { return Not(Ult(b, a)) }
func Ugt(a, b *Expr) *Expr { return Ult(b, a) }
func Uge(a, b *Expr) *Expr { return Not(Ult(a, b)) }

func Slt(a, b *Expr) *Expr {
	if a == b {
		return False
	}
	if a.IsConst() && b.IsConst() {
		return Bool(sext64(a.K, a.W) < sext64(b.K, b.W))
	}
	// both provably non-negative -> unsigned compare
	if nonNeg(a) && nonNeg(b) {
		return Ult(a, b)
	}
	return intern(Expr{Op: OpSlt, W: 0, A: a, B: b})
}

func nonNeg(e *Expr) bool {
	if e.W > 64 {
		return false
	}
	ub, ok := upperBound(e)
	return ok && ub>>(uint(e.W)-1) == 0
}

func Sle(a, b *Expr) *Expr { return Not(Slt(b, a)) }
func Sgt(a, b *Expr) *Expr { return Slt(b, a) }
func Sge(a, b *Expr) *Expr { return Not(Slt(a, b)) }

// ---------- arithmetic ----------

func bin(op Op, a, b *Expr) *Expr {
	if a.W != b.W {
		panic(fmt.Sprintf("binop %s width mismatch %d vs %d", opNames[op], a.W, b.W))
	}
	return intern(Expr{Op: op, W: a.W, A: a, B: b})
}

func Add(a, b *Expr) *Expr {
	if a.IsConst() && b.IsConst() {
		return Const(a.W, a.K+b.K)
	}
	if a.IsConst() {
		a, b = b, a
	}
	if b.IsConst() {
		if b.K == 0 {
			return a
		}
		if a.Op == OpAdd && a.B.IsConst() {
			return Add(a.A, Const(a.W, a.B.K+b.K))
		}
		if a.Op == OpSub && a.B.IsConst() {
			return Add(a.A, Const(a.W, b.K-a.B.K))
		}
		return bin(OpAdd, a, b)
	}
	if a.id > b.id {
		a, b = b, a
	}
	return bin(OpAdd, a, b)
}

func Sub(a, b *Expr) *Expr {
	if a == b {
		return Const(a.W, 0)
	}
	if a.IsConst() && b.IsConst() {
		return Const(a.W, a.K-b.K)
	}
	if b.IsConst() {
		return Add(a, Const(a.W, -b.K))
	}
	// (x + c) - x
	if a.Op == OpAdd && a.A == b && a.B.IsConst() {
		return a.B
	}
	// (x + c2) - (x + c1)
	if a.Op == OpAdd && b.Op == OpAdd && a.A == b.A && a.B.IsConst() && b.B.IsConst() {
		return Const(a.W, a.B.K-b.B.K)
	}
	// x - (x + c)
	if b.Op == OpAdd && b.A == a && b.B.IsConst() {
		return Const(a.W, -b.B.K)
	}
	return bin(OpSub, a, b)
}

func Neg(a *Expr) *Expr { return Sub(Const(a.W, 0), a) }

func Mul(a, b *Expr) *Expr {
	if a.IsConst() && b.IsConst() {
		return Const(a.W, a.K*b.K)
	}
	if a.IsConst() {
		a, b = b, a
	}
	if b.IsConst() {
		if b.K == 0 {
			return b
		}
		if b.K == 1 {
			return a
		}
		if b.K&(b.K-1) == 0 {
			return Shl(a, Const(a.W, uint64(bits.TrailingZeros64(b.K))))
		}
	}
	return bin(OpMul, a, b)
}

func UDiv(a, b *Expr) *Expr {
	if a.IsConst() && b.IsConst() && b.K != 0 {
		return Const(a.W, a.K/b.K)
	}
	if b.IsConst() && b.K == 1 {
		return a
	}
	if b.IsConst() && b.K != 0 && b.K&(b.K-1) == 0 {
		return LShr(a, Const(a.W, uint64(bits.TrailingZeros64(b.K))))
	}
	return bin(OpUDiv, a, b)
}

func URem(a, b *Expr) *Expr {
	if a.IsConst() && b.IsConst() && b.K != 0 {
		return Const(a.W, a.K%b.K)
	}
	if b.IsConst() && b.K != 0 && b.K&(b.K-1) == 0 {
		return BAnd(a, Const(a.W, b.K-1))
	}
	return bin(OpURem, a, b)
}

func SDiv(a, b *Expr) *Expr {
	if a.IsConst() && b.IsConst() && b.K != 0 {
		x, y := sext64(a.K, a.W), sext64(b.K, b.W)
		if y == -1 {
			return Const(a.W, uint64(-x))
		}
		return Const(a.W, uint64(x/y))
	}
	if b.IsConst() && b.K == 1 {
		return a
	}
	if nonNeg(a) && nonNeg(b) {
		return UDiv(a, b)
	}
	return bin(OpSDiv, a, b)
}

func SRem(a, b *Expr) *Expr {
	if a.IsConst() && b.IsConst() && b.K != 0 {
		x, y := sext64(a.K, a.W), sext64(b.K, b.W)
		if y == -1 {
			return Const(a.W, 0)
		}
		return Const(a.W, uint64(x%y))
	}
	if nonNeg(a) && nonNeg(b) {
		return URem(a, b)
	}
	return bin(OpSRem, a, b)
}

func BNot(a *Expr) *Expr {
	if a.IsConst() {
		return Const(a.W, ^a.K)
	}
	if a.Op == OpBNot {
		return a.A
	}
	return intern(Expr{Op: OpBNot, W: a.W, A: a})
}

func BAnd(a, b *Expr) *Expr {
	if a == b {
		return a
	}
	if a.IsConst() && b.IsConst() {
		return Const(a.W, a.K&b.K)
	}
	if a.IsConst() {
		a, b = b, a
	}
	if b.IsConst() {
		if b.K == 0 {
			return b
		}
		if b.K == mask(b.W) {
			return a
		}
		// split by runs of the mask (only if few runs)
		runs := 0
		prev := uint64(2)
		for i := 0; i < b.W; i++ {
			bit := (b.K >> uint(i)) & 1
			if bit != prev {
				runs++
				prev = bit
			}
		}
		if runs <= 4 {
			pa := pieces(a, nil)
			var out []piece
			// iterate runs from high to low
			i := b.W
			for i > 0 {
				bit := (b.K >> uint(i-1)) & 1
				j := i
				for j > 0 && (b.K>>uint(j-1))&1 == bit {
					j--
				}
				if bit == 1 {
					out = append(out, cutPieces(pa, j, i-j)...)
				} else {
					out = append(out, piece{w: i - j})
				}
				i = j
			}
			return fromPieces(out)
		}
		return bin(OpBAnd, a, b)
	}
	if r := mergePieces(a, b, OpBAnd); r != nil {
		return r
	}
	if a.id > b.id {
		a, b = b, a
	}
	return bin(OpBAnd, a, b)
}

func BOr(a, b *Expr) *Expr {
	if a == b {
		return a
	}
	if a.IsConst() && b.IsConst() {
		return Const(a.W, a.K|b.K)
	}
	if a.IsConst() {
		a, b = b, a
	}
	if b.IsConst() {
		if b.K == 0 {
			return a
		}
		if b.K == mask(b.W) {
			return b
		}
	}
	if r := mergePieces(a, b, OpBOr); r != nil {
		return r
	}
	if a.id > b.id {
		a, b = b, a
	}
	return bin(OpBOr, a, b)
}

func BXor(a, b *Expr) *Expr {
	if a == b {
		return Const(a.W, 0)
	}
	if a.IsConst() && b.IsConst() {
		return Const(a.W, a.K^b.K)
	}
	if a.IsConst() {
		a, b = b, a
	}
	if b.IsConst() && b.K == 0 {
		return a
	}
	if r := mergePieces(a, b, OpBXor); r != nil {
		return r
	}
	if a.id > b.id {
		a, b = b, a
	}
	return bin(OpBXor, a, b)
}

// mergePieces combines two values piecewise when on every aligned sub-piece
// at least one side is a constant that makes the operation trivial.
func mergePieces(a, b *Expr, op Op) *Expr {
	if a.W > 64 {
		return nil
	}
	pa := pieces(a, nil)
	pb := pieces(b, nil)
	hasConst := false
	for _, p := range pa {
		if p.src == nil {
			hasConst = true
		}
	}
	for _, p := range pb {
		if p.src == nil {
			hasConst = true
		}
	}
	if !hasConst {
		return nil
	}
	total := a.W
	cuts := map[int]bool{}
	pos := total
	for _, p := range pa {
		pos -= p.w
		cuts[pos] = true
	}
	pos = total
	for _, p := range pb {
		pos -= p.w
		cuts[pos] = true
	}
	var out []piece
	top := total
	for bot := total - 1; bot >= 0; bot-- {
		if !cuts[bot] {
			continue
		}
		w := top - bot
		x := cutPieces(pa, bot, w)
		y := cutPieces(pb, bot, w)
		if len(x) != 1 || len(y) != 1 {
			return nil
		}
		px, py := x[0], y[0]
		if px.src != nil && py.src != nil {
			if px.src == py.src && px.lo == py.lo && op != OpBXor {
				out = append(out, px)
				top = bot
				continue
			}
			return nil
		}
		if px.src == nil && py.src == nil {
			var k uint64
			switch op {
			case OpBOr:
				k = px.k | py.k
			case OpBAnd:
				k = px.k & py.k
			case OpBXor:
				k = px.k ^ py.k
			}
			out = append(out, piece{w: w, k: k})
			top = bot
			continue
		}
		if px.src == nil {
			px, py = py, px
		}
		// px symbolic, py const
		switch op {
		case OpBOr, OpBXor:
			if py.k == 0 {
				out = append(out, px)
			} else if op == OpBOr && py.k == mask(w) {
				out = append(out, py)
			} else {
				return nil
			}
		case OpBAnd:
			if py.k == 0 {
				out = append(out, py)
			} else if py.k == mask(w) {
				out = append(out, px)
			} else {
				return nil
			}
		}
		top = bot
	}
	return fromPieces(out)
}

// shift amount b has the same width as a (caller normalises).
func Shl(a, b *Expr) *Expr {
	if b.IsConst() {
		c := b.K
		if c == 0 {
			return a
		}
		if c >= uint64(a.W) {
			return Const(a.W, 0)
		}
		if a.IsConst() {
			return Const(a.W, a.K<<c)
		}
		return Concat(Extract(a, a.W-1-int(c), 0), Const(int(c), 0))
	}
	if a.IsConst() && a.K == 0 {
		return a
	}
	return bin(OpShl, a, b)
}

func LShr(a, b *Expr) *Expr {
	if b.IsConst() {
		c := b.K
		if c == 0 {
			return a
		}
		if c >= uint64(a.W) {
			return Const(a.W, 0)
		}
		if a.IsConst() {
			return Const(a.W, a.K>>c)
		}
		return Concat(Const(int(c), 0), Extract(a, a.W-1, int(c)))
	}
	if a.IsConst() && a.K == 0 {
		return a
	}
	return bin(OpLShr, a, b)
}

func AShr(a, b *Expr) *Expr {
	if nonNeg(a) {
		return LShr(a, b)
	}
	if a.IsConst() && b.IsConst() {
		c := b.K
		if c >= uint64(a.W) {
			c = uint64(a.W) - 1
		}
		return Const(a.W, uint64(sext64(a.K, a.W)>>c))
	}
	if b.IsConst() && b.K == 0 {
		return a
	}
	return bin(OpAShr, a, b)
}

// ---------- SMT-LIB printing ----------

func sortOf(w int) string {
	if w == 0 {
		return "Bool"
	}
	return fmt.Sprintf("(_ BitVec %d)", w)
}

func constStr(w int, k uint64) string {
	if w == 0 {
		if k == 1 {
			return "true"
		}
		return "false"
	}
	if w%4 == 0 {
		return fmt.Sprintf("#x%0*x", w/4, k)
	}
	return fmt.Sprintf("#b%0*b", w, k)
}

func (e *Expr) ref() string {
	switch e.Op {
	case OpConst:
		return constStr(e.W, e.K)
	case OpVar:
		return "|" + e.Name + "|"
	}
	return fmt.Sprintf("e%d", e.id)
}

// term prints one node referring to children by name.
func (e *Expr) term() string {
	switch e.Op {
	case OpConst, OpVar:
		return e.ref()
	case OpUF:
		var sb strings.Builder
		sb.WriteString("(|" + e.Name + "|")
		for _, a := range e.Args {
			sb.WriteString(" " + a.ref())
		}
		sb.WriteString(")")
		return sb.String()
	case OpNot, OpBNot:
		return fmt.Sprintf("(%s %s)", opNames[e.Op], e.A.ref())
	case OpIte:
		return fmt.Sprintf("(ite %s %s %s)", e.A.ref(), e.B.ref(), e.C.ref())
	case OpExtract:
		return fmt.Sprintf("((_ extract %d %d) %s)", e.K>>16, e.K&0xffff, e.A.ref())
	case OpSExt:
		return fmt.Sprintf("((_ sign_extend %d) %s)", e.W-e.A.W, e.A.ref())
	default:
		return fmt.Sprintf("(%s %s %s)", opNames[e.Op], e.A.ref(), e.B.ref())
	}
}

func (e *Expr) children() []*Expr {
	var c []*Expr
	if e.A != nil {
		c = append(c, e.A)
	}
	if e.B != nil {
		c = append(c, e.B)
	}
	if e.C != nil {
		c = append(c, e.C)
	}
	c = append(c, e.Args...)
	return c
}

// String gives a compact human-readable rendering (bounded depth).
func (e *Expr) String() string { return e.str(6) }

func (e *Expr) str(d int) string {
	switch e.Op {
	case OpConst:
		if e.W == 0 {
			return constStr(0, e.K)
		}
		return fmt.Sprintf("%d:%d", e.K, e.W)
	case OpVar:
		return e.Name
	}
	if d == 0 {
		return fmt.Sprintf("e%d", e.id)
	}
	switch e.Op {
	case OpUF:
		s := e.Name + "("
		for i, a := range e.Args {
			if i > 0 {
				s += ","
			}
			s += a.str(d - 1)
		}
		return s + ")"
	case OpExtract:
		return fmt.Sprintf("%s[%d:%d]", e.A.str(d-1), e.K>>16, e.K&0xffff)
	case OpSExt:
		return fmt.Sprintf("sext%d(%s)", e.W, e.A.str(d-1))
	}
	s := "(" + opNames[e.Op]
	for _, c := range e.children() {
		s += " " + c.str(d-1)
	}
	return s + ")"
}

// ---------- evaluation under a model ----------

type Model map[*Expr]uint64 // values for OpVar and OpUF nodes

func evalExpr(e *Expr, m Model, memo map[*Expr]uint64) (uint64, bool) {
	if e.Op == OpConst {
		return e.K, true
	}
	if v, ok := memo[e]; ok {
		return v, true
	}
	if e.W > 64 {
		return 0, false
	}
	var r uint64
	switch e.Op {
	case OpVar, OpUF:
		v, ok := m[e]
		if !ok {
			return 0, false
		}
		r = v
	default:
		var a, b, c uint64
		var ok bool
		if e.A != nil {
			if e.A.W > 64 {
				return 0, false
			}
			if a, ok = evalExpr(e.A, m, memo); !ok {
				return 0, false
			}
		}
		if e.Op == OpIte {
			if a == 1 {
				r, ok = evalExpr(e.B, m, memo)
			} else {
				r, ok = evalExpr(e.C, m, memo)
			}
			if !ok {
				return 0, false
			}
			memo[e] = r
			return r, true
		}
		if e.B != nil {
			if b, ok = evalExpr(e.B, m, memo); !ok {
				return 0, false
			}
		}
		_ = c
		w := e.W
		aw := 0
		if e.A != nil {
			aw = e.A.W
		}
		switch e.Op {
		case OpNot:
			r = a ^ 1
		case OpAnd:
			r = a & b
		case OpOr:
			r = a | b
		case OpEq:
			r = b2u(a == b)
		case OpUlt:
			r = b2u(a < b)
		case OpUle:
			r = b2u(a <= b)
		case OpSlt:
			r = b2u(sext64(a, aw) < sext64(b, aw))
		case OpSle:
			r = b2u(sext64(a, aw) <= sext64(b, aw))
		case OpAdd:
			r = a + b
		case OpSub:
			r = a - b
		case OpMul:
			r = a * b
		case OpUDiv:
			if b == 0 {
				r = mask(w)
			} else {
				r = a / b
			}
		case OpURem:
			if b == 0 {
				r = a
			} else {
				r = a % b
			}
		case OpSDiv:
			x, y := sext64(a, w), sext64(b, w)
			if y == 0 {
				if x < 0 {
					r = 1
				} else {
					r = mask(w)
				}
			} else if y == -1 {
				r = uint64(-x)
			} else {
				r = uint64(x / y)
			}
		case OpSRem:
			x, y := sext64(a, w), sext64(b, w)
			if y == 0 {
				r = a
			} else if y == -1 {
				r = 0
			} else {
				r = uint64(x % y)
			}
		case OpBAnd:
			r = a & b
		case OpBOr:
			r = a | b
		case OpBXor:
			r = a ^ b
		case OpBNot:
			r = ^a
		case OpShl:
			if b >= uint64(w) {
				r = 0
			} else {
				r = a << b
			}
		case OpLShr:
			if b >= uint64(w) {
				r = 0
			} else {
				r = a >> b
			}
		case OpAShr:
			if b >= uint64(w) {
				b = uint64(w) - 1
			}
			r = uint64(sext64(a, w) >> b)
		case OpConcat:
			r = a<<uint(e.B.W) | b
		case OpExtract:
			r = a >> uint(e.K&0xffff)
		case OpSExt:
			r = uint64(sext64(a, aw))
		default:
			return 0, false
		}
		r &= maskB(w)
	}
	memo[e] = r
	return r, true
}

func maskB(w int) uint64 {
	if w == 0 {
		return 1
	}
	return mask(w)
}

func b2u(b bool) uint64 {
	if b {
		return 1
	}
	return 0
}
