package main

import (
	"fmt"
	"go/types"
	"hash/crc32"
	"os"
	"path/filepath"
	"sort"
	"strconv"
	"strings"

	"golang.org/x/tools/go/ssa"
)

type intrinsic func(s *State, th *Thread, fr *Frame, args []Value, call *ssa.Call, rk retKind) (Value, bool)

var intrinsics = map[string]intrinsic{}

func reg(name string, h intrinsic) { intrinsics[name] = h }

// simple registers an intrinsic that never blocks or forks frames.
func simple(name string, f func(s *State, args []Value) Value) {
	reg(name, func(s *State, th *Thread, fr *Frame, args []Value, call *ssa.Call, rk retKind) (Value, bool) {
		v := f(s, args)
		if s.dead {
			return nil, false
		}
		return v, true
	})
}

func c64(n int) *Expr { return Const(64, uint64(n)) }

func (s *State) sliceLen(v SliceV) int { return int(s.concretize(v.Len, "slice len")) }

// sliceCells returns the cells of a slice of single-leaf elements (bytes etc.).
func (s *State) sliceCells(v SliceV) []Value {
	n := s.sliceLen(v)
	if n == 0 {
		return nil
	}
	return s.loadLeaves(PtrV{Obj: v.Obj, Off: v.Off}, n)
}

func (s *State) newByteSlice(cells []Value, note string) SliceV {
	id := s.newObject(cells, note)
	s.heap[id].Elem = types.Typ[types.Uint8]
	return SliceV{Obj: id, Len: c64(len(cells)), Cap: c64(len(cells))}
}

func (s *State) bytesOf(v Value) []Value {
	switch x := v.(type) {
	case SliceV:
		return s.sliceCells(x)
	case StrV:
		out := make([]Value, len(x))
		for i := range out {
			out[i] = Const(8, uint64(x[i]))
		}
		return out
	}
	panic(engineErr("bytesOf " + showValue(v)))
}

// concreteBytes returns the bytes if all are constants.
func concreteBytes(cells []Value) ([]byte, bool) {
	out := make([]byte, len(cells))
	for i, c := range cells {
		e, ok := c.(*Expr)
		if !ok || !e.IsConst() {
			return nil, false
		}
		out[i] = byte(e.K)
	}
	return out, true
}

func concatBytes(cells []Value) *Expr {
	// big-endian concat of byte cells: first byte is the highest
	var ps []piece
	for _, c := range cells {
		ps = pieces(c.(*Expr), ps)
	}
	return fromPieces(ps)
}

func bytesEqual(a, b []Value) *Expr {
	if len(a) != len(b) {
		return False
	}
	r := True
	for i := range a {
		r = And(r, Eq(a[i].(*Expr), b[i].(*Expr)))
		if r.IsFalse() {
			return False
		}
	}
	return r
}

func elemLeaves(v SliceV, s *State) int {
	o := s.obj(v.Obj)
	if o.Elem != nil {
		return layoutOf(o.Elem).n
	}
	return 1
}

func (s *State) builtin(name string, args []Value, call *ssa.Call) (Value, bool) {
	switch name {
	case "len":
		switch x := args[0].(type) {
		case SliceV:
			return x.Len, true
		case StrV:
			return c64(len(x)), true
		case MapV:
			if x.Obj == 0 {
				return c64(0), true
			}
			return c64(len(s.obj(x.Obj).M)), true
		case AggV:
			at := call.Call.Args[0].Type().Underlying().(*types.Array)
			return c64(int(at.Len())), true
		case PtrV:
			at := call.Call.Args[0].Type().Underlying().(*types.Pointer).Elem().Underlying().(*types.Array)
			return c64(int(at.Len())), true
		}
	case "cap":
		switch x := args[0].(type) {
		case SliceV:
			return x.Cap, true
		case PtrV:
			at := call.Call.Args[0].Type().Underlying().(*types.Pointer).Elem().Underlying().(*types.Array)
			return c64(int(at.Len())), true
		}
	case "copy":
		dst := args[0].(SliceV)
		elemN := 1
		if call != nil {
			if st, ok := call.Call.Args[0].Type().Underlying().(*types.Slice); ok {
				elemN = layoutOf(st.Elem()).n
			}
		} else if dst.Obj != 0 {
			elemN = elemLeaves(dst, s)
		}
		var srcLen *Expr
		switch src := args[1].(type) {
		case StrV:
			srcLen = c64(len(src))
		case SliceV:
			srcLen = src.Len
		}
		// n = min(len(dst), len(src)) without enumerating symbolic lengths
		var n int
		switch {
		case dst.Len.IsConst() && srcLen.IsConst():
			n = int(dst.Len.K)
			if int(srcLen.K) < n {
				n = int(srcLen.K)
			}
		case srcLen.IsConst():
			if s.branch(Sge(dst.Len, srcLen)) {
				n = int(srcLen.K)
			} else {
				n = int(s.concretize(dst.Len, "copy dst len"))
			}
		case dst.Len.IsConst():
			if s.branch(Sge(srcLen, dst.Len)) {
				n = int(dst.Len.K)
			} else {
				n = int(s.concretize(srcLen, "copy src len"))
			}
		default:
			if s.branch(Sge(dst.Len, srcLen)) {
				n = int(s.concretize(srcLen, "copy src len"))
			} else {
				n = int(s.concretize(dst.Len, "copy dst len"))
			}
		}
		if n > 0 {
			var tmp []Value
			switch src := args[1].(type) {
			case StrV:
				tmp = s.bytesOf(src)[:n]
			case SliceV:
				s.monitor(s.frame(), src.Obj, src.Off, n*elemN, false)
				tmp = append([]Value(nil), s.loadLeaves(PtrV{Obj: src.Obj, Off: src.Off}, n*elemN)...)
			}
			s.monitor(s.frame(), dst.Obj, dst.Off, n*elemN, true)
			o := s.wobj(dst.Obj)
			if o.Virtual && dst.Off+n*elemN > len(o.Cells) {
				o = s.materialize(dst.Obj, dst.Off+n*elemN)
			}
			copy(o.Cells[dst.Off:dst.Off+n*elemN], tmp)
		}
		return c64(n), true
	case "append":
		return s.doAppend(args, call), !s.dead
	case "delete":
		m := args[0].(MapV)
		if m.Obj != 0 {
			k := s.mapKey(args[1])
			o := s.wobj(m.Obj)
			delete(o.M, k)
			for i, kk := range o.Keys {
				if kk == k {
					o.Keys = append(append([]interface{}(nil), o.Keys[:i]...), o.Keys[i+1:]...)
					break
				}
			}
		}
		return nil, true
	case "recover":
		return s.doRecover(s.thread()), true
	case "print", "println":
		return nil, true
	case "min", "max":
		a := s.asExpr(args[0])
		for _, b := range args[1:] {
			y := s.asExpr(b)
			var c *Expr
			signed := isSigned(call.Call.Args[0].Type())
			if signed {
				c = Slt(a, y)
			} else {
				c = Ult(a, y)
			}
			if name == "min" {
				a = Ite(c, a, y)
			} else {
				a = Ite(c, y, a)
			}
		}
		return a, true
	}
	panic(engineErr("builtin " + name))
}

func (s *State) doAppend(args []Value, call *ssa.Call) Value {
	dst := args[0].(SliceV)
	st := call.Call.Args[0].Type().Underlying().(*types.Slice)
	et := st.Elem()
	elemN := layoutOf(et).n
	var add []Value
	var addN int
	switch src := args[1].(type) {
	case StrV:
		add = s.bytesOf(src)
		addN = len(src)
	case SliceV:
		addN = s.sliceLen(src)
		if addN > 0 {
			add = append([]Value(nil), s.obj(src.Obj).Cells[src.Off:src.Off+addN*elemN]...)
		}
	}
	if addN == 0 {
		return dst
	}
	dl := s.sliceLen(dst)
	dc := int(s.concretize(dst.Cap, "append cap"))
	if dl+addN <= dc && dst.Obj != 0 {
		s.monitor(s.frame(), dst.Obj, dst.Off+dl*elemN, addN*elemN, true)
		o := s.wobj(dst.Obj)
		copy(o.Cells[dst.Off+dl*elemN:], add)
		return SliceV{Obj: dst.Obj, Off: dst.Off, Len: c64(dl + addN), Cap: dst.Cap}
	}
	nc := dc * 2
	if nc < dl+addN {
		nc = dl + addN
	}
	if !s.countAlloc(int64(nc*elemN*elemBytes(et)), nil) {
		return nil
	}
	cells := make([]Value, 0, nc*elemN)
	if dl > 0 {
		cells = append(cells, s.obj(dst.Obj).Cells[dst.Off:dst.Off+dl*elemN]...)
	}
	cells = append(cells, add...)
	zl := zeroLeaves(et, nil)
	for i := dl + addN; i < nc; i++ {
		cells = append(cells, zl...)
	}
	id := s.newObject(cells, "append")
	s.heap[id].Own = s.frame().info.own
	s.heap[id].Elem = et
	return SliceV{Obj: id, Off: 0, Len: c64(dl + addN), Cap: c64(nc)}
}

// ---------- native helpers on concrete data ----------

func str(v Value) string {
	sv, ok := v.(StrV)
	if !ok {
		panic(engineErr("expected concrete string, got " + showValue(v)))
	}
	return string(sv)
}

func (s *State) cint(v Value) int64 {
	e := s.asExpr(v)
	return sext64(s.concretize(e, "native int arg"), e.W)
}

func (s *State) strSlice(ss []string) SliceV {
	cells := make([]Value, len(ss))
	for i, x := range ss {
		cells[i] = StrV(x)
	}
	id := s.newObject(cells, "[]string")
	s.heap[id].Elem = types.Typ[types.String]
	return SliceV{Obj: id, Len: c64(len(ss)), Cap: c64(len(ss))}
}

// goArgs converts variadic ...interface{} slice to native values for fmt.
func (s *State) goArgs(v Value) []interface{} {
	sl := v.(SliceV)
	n := s.sliceLen(sl)
	var out []interface{}
	for i := 0; i < n; i++ {
		out = append(out, s.goNative(s.obj(sl.Obj).Cells[sl.Off+i]))
	}
	return out
}

func (s *State) goNative(v Value) interface{} {
	switch x := v.(type) {
	case IfaceV:
		if x.T == nil {
			return nil
		}
		if x.T == nativeErrT {
			return fmt.Errorf("%s", string(x.V.(StrV)))
		}
		if e, ok := x.V.(*Expr); ok {
			if !e.IsConst() {
				return "<sym>"
			}
			if b, ok := x.T.Underlying().(*types.Basic); ok {
				if b.Info()&types.IsBoolean != 0 {
					return e.K == 1
				}
				if b.Info()&types.IsUnsigned != 0 {
					return e.K
				}
				return sext64(e.K, e.W)
			}
		}
		if sv, ok := x.V.(StrV); ok {
			return string(sv)
		}
		return fmt.Sprintf("<%s>", x.T)
	case StrV:
		return string(x)
	case *Expr:
		if x.IsConst() {
			return x.K
		}
		return "<sym>"
	}
	return fmt.Sprintf("%v", v)
}

func errorsNew(s *State, msg string) Value {
	// build a *errors.errorString so Error() works through SSA
	if errStrT == nil {
		return nativeErr(msg)
	}
	id := s.allocType(errStrT.Elem(), "errorString")
	s.heap[id].Cells[0] = StrV(msg)
	return IfaceV{T: errStrT, V: PtrV{Obj: id}}
}

var errStrT *types.Pointer // *errors.errorString

func init() {
	simple("bytes.Equal", func(s *State, a []Value) Value {
		x, y := a[0].(SliceV), a[1].(SliceV)
		lx, ly := s.sliceLen(x), s.sliceLen(y)
		if lx != ly {
			return False
		}
		return bytesEqual(s.sliceCells(x), s.sliceCells(y))
	})
	simple("hash/crc32.ChecksumIEEE", func(s *State, a []Value) Value {
		cells := s.sliceCells(a[0].(SliceV))
		return crcOf(cells)
	})
	// logging / metrics: no-ops
	for _, n := range []string{"(*log.Logger).Printf", "(*log.Logger).Println", "(*log.Logger).Print", "log.Printf", "log.Println"} {
		simple(n, func(s *State, a []Value) Value { return nil })
	}
	simple("(*expvar.Int).Add", func(s *State, a []Value) Value { return nil })
	simple("(*expvar.Int).Value", func(s *State, a []Value) Value { return Const(64, 0) })
	simple("log.New", func(s *State, a []Value) Value {
		return PtrV{Obj: s.newObject([]Value{Const(64, 0)}, "log.Logger")}
	})
	// strings / strconv / filepath on concrete data
	simple("strings.TrimSuffix", func(s *State, a []Value) Value { return StrV(strings.TrimSuffix(str(a[0]), str(a[1]))) })
	simple("strings.TrimPrefix", func(s *State, a []Value) Value { return StrV(strings.TrimPrefix(str(a[0]), str(a[1]))) })
	simple("strings.HasSuffix", func(s *State, a []Value) Value { return Bool(strings.HasSuffix(str(a[0]), str(a[1]))) })
	simple("strings.HasPrefix", func(s *State, a []Value) Value { return Bool(strings.HasPrefix(str(a[0]), str(a[1]))) })
	simple("strings.SplitN", func(s *State, a []Value) Value {
		return s.strSlice(strings.SplitN(str(a[0]), str(a[1]), int(s.cint(a[2]))))
	})
	simple("strconv.ParseUint", func(s *State, a []Value) Value {
		v, err := strconv.ParseUint(str(a[0]), int(s.cint(a[1])), int(s.cint(a[2])))
		if err != nil {
			return TupleV{Const(64, v), errorsNew(s, err.Error())}
		}
		return TupleV{Const(64, v), IfaceV{}}
	})
	simple("strconv.Itoa", func(s *State, a []Value) Value { return StrV(strconv.Itoa(int(s.cint(a[0])))) })
	simple("path/filepath.Ext", func(s *State, a []Value) Value { return StrV(filepath.Ext(str(a[0]))) })
	simple("path/filepath.Clean", func(s *State, a []Value) Value { return StrV(filepath.Clean(str(a[0]))) })
	simple("path/filepath.Dir", func(s *State, a []Value) Value { return StrV(filepath.Dir(str(a[0]))) })
	simple("path/filepath.Base", func(s *State, a []Value) Value { return StrV(filepath.Base(str(a[0]))) })
	simple("path/filepath.Split", func(s *State, a []Value) Value {
		d, f := filepath.Split(str(a[0]))
		return TupleV{StrV(d), StrV(f)}
	})
	simple("path/filepath.Join", func(s *State, a []Value) Value {
		sl := a[0].(SliceV)
		n := s.sliceLen(sl)
		var parts []string
		for i := 0; i < n; i++ {
			parts = append(parts, str(s.obj(sl.Obj).Cells[sl.Off+i]))
		}
		return StrV(filepath.Join(parts...))
	})
	simple("fmt.Sprintf", func(s *State, a []Value) Value { return StrV(fmt.Sprintf(str(a[0]), s.goArgs(a[1])...)) })
	simple("fmt.Sprint", func(s *State, a []Value) Value { return StrV(fmt.Sprint(s.goArgs(a[0])...)) })
	simple("fmt.Errorf", func(s *State, a []Value) Value { return errorsNew(s, fmt.Sprintf(str(a[0]), s.goArgs(a[1])...)) })
	simple("os.IsNotExist", func(s *State, a []Value) Value {
		iv := a[0].(IfaceV)
		return Bool(iv.T == nativeErrT && str(iv.V) == "io/fs.ErrNotExist")
	})
	simple("os.IsExist", func(s *State, a []Value) Value {
		iv := a[0].(IfaceV)
		return Bool(iv.T == nativeErrT && str(iv.V) == "io/fs.ErrExist")
	})
	simple("nativeErr.Error", func(s *State, a []Value) Value { return a[0].(StrV) })
	simple("time.Now", func(s *State, a []Value) Value {
		return zeroValue(timeT)
	})
	simple("github.com/akrylysov/pogreb/internal/hash.RandSeed", func(s *State, a []Value) Value {
		// crypto/rand stub: one arbitrary (symbolic) 32-bit seed per run; the same
		// value is returned on every call so that replays can pin it.
		stats.stubs["hash.RandSeed:symbolic"]++
		s.counters["randseed"]++
		name := "hashseed"
		// by default every call returns the same arbitrary value (keeps recovery sessions from
		// re-forking on the hash layout); harnesses about the seed itself ask for fresh values
		if k := s.counters["randseed"]; k > 1 && s.flags["freshSeeds"] != 0 {
			name = fmt.Sprintf("hashseed#%d", k)
		}
		v := Var(name, 32)
		if pinned != nil {
			v = Const(32, pinned.Scalars[name])
		}
		return TupleV{v, IfaceV{}}
	})
	reg("github.com/akrylysov/pogreb/internal/hash.Sum32WithSeed", func(s *State, th *Thread, fr *Frame, args []Value, call *ssa.Call, rk retKind) (Value, bool) {
		if s.flags["realHash"] != 0 {
			f := call.Call.StaticCallee()
			s.pushCall(f, args, nil, rk)
			return nil, false
		}
		return s.ufHash(args[0].(SliceV), s.asExpr(args[1])), true
	})
	regSync()
	regGob()
	regWorker()
}

var timeT types.Type

// crcOf: concrete bytes -> real CRC; symbolic -> uninterpreted function per length.
func crcOf(cells []Value) *Expr {
	if bs, ok := concreteBytes(cells); ok {
		return Const(32, uint64(crc32.ChecksumIEEE(bs)))
	}
	stats.stubs["crc32.ChecksumIEEE:UF"]++
	return UF(fmt.Sprintf("crc_%d", len(cells)), 32, concatBytes(cells))
}

// ufHash models hash.Sum32WithSeed as an uninterpreted function of (bytes, seed):
// a fresh variable per syntactically distinct argument tuple plus explicit
// congruence constraints added to the path condition.
type hashApp struct {
	cells []Value
	seed  *Expr
	h     *Expr
}

var hashApps = map[string]*hashApp{}
var hashOrder []*hashApp

func (s *State) ufHash(data SliceV, seed *Expr) *Expr {
	cells := append([]Value(nil), s.sliceCells(data)...)
	var sb strings.Builder
	for _, c := range cells {
		fmt.Fprintf(&sb, "%d,", c.(*Expr).id)
	}
	fmt.Fprintf(&sb, "|%d", seed.id)
	key := sb.String()
	stats.stubs["hash.Sum32WithSeed:UF"]++
	if a, ok := hashApps[key]; ok {
		s.hashCongruence(a)
		return a.h
	}
	a := &hashApp{cells: cells, seed: seed, h: Var(fmt.Sprintf("H!%d", len(hashOrder)), 32)}
	hashApps[key] = a
	hashOrder = append(hashOrder, a)
	s.hashCongruence(a)
	return a.h
}

// hashCongruence adds (args equal => hashes equal) against every other
// application this state has seen.
func (s *State) hashCongruence(a *hashApp) {
	seenKey := "hashSeen"
	_ = seenKey
	for _, b := range hashOrder {
		if b == a || len(b.cells) != len(a.cells) {
			continue
		}
		eq := And(Eq(a.seed, b.seed), bytesEqual(a.cells, b.cells))
		if eq.IsFalse() {
			continue
		}
		c := Implies(eq, Eq(a.h, b.h))
		if !s.pcSet[c] {
			s.addPC(c)
		}
	}
}


// ---------- sync ----------

type waitSpec struct {
	kind  int // 0 none, 1 mutex lock, 2 rw lock, 3 rw rlock, 4 wg wait, 5 join, 6 select
	p     PtrV
	chans []Value
}

func (s *State) cellInt(p PtrV, off int) int64 {
	e := s.obj(p.Obj).Cells[p.Off+off].(*Expr)
	return sext64(e.K, e.W)
}

func (s *State) setCellInt(p PtrV, off int, v int64) {
	o := s.wobj(p.Obj)
	w := o.Cells[p.Off+off].(*Expr).W
	o.Cells[p.Off+off] = Const(w, uint64(v))
}

func (s *State) enabled(t *Thread, w waitSpec) bool {
	switch w.kind {
	case 0:
		return true
	case 1:
		return s.cellInt(w.p, 0) == 0
	case 2:
		return s.cellInt(w.p, 0) == 0 && s.cellInt(w.p, 1) == 0
	case 3:
		return s.cellInt(w.p, 0) == 0
	case 4:
		return s.cellInt(w.p, 0) == 0
	case 6:
		for _, c := range w.chans {
			if s.chanReady(c) {
				return true
			}
		}
		return false
	case 5:
		for _, o := range s.threads {
			if o != t && !o.done && o != s.exiting {
				return false
			}
		}
		return true
	}
	return true
}

var threadWaits = map[int]map[int]waitSpec{} // not used; waits are kept in Thread via side table below

// schedPoint implements a scheduling point for the current thread. It returns
// true when the current thread may proceed with its operation now.
func (s *State) schedPoint(th *Thread, w waitSpec) bool {
	if th.granted {
		th.granted = false
		delete(s.waits(), th.id)
		return true
	}
	if len(s.threads) == 1 || s.flags["noPreempt"] != 0 {
		if s.enabled(th, w) {
			return true
		}
		if len(s.threads) == 1 {
			s.report("deadlock", "single thread blocks forever", s.currentModel(), "sat")
			s.dead = true
			return false
		}
	}
	s.setWait(th, w)
	return s.reschedule()
}

func (s *State) setWait(th *Thread, w waitSpec) {
	s.waits()[th.id] = w
}

// waits are stored in the state as a small map thread id -> spec.
func (s *State) waits() map[int]waitSpec {
	if s.waitMap == nil {
		s.waitMap = map[int]waitSpec{}
	}
	return s.waitMap
}

// reschedule picks the next thread to run among the enabled ones (forking).
// Returns true if the current thread continues with its pending operation.
func (s *State) reschedule() bool { return s.rescheduleEx(nil) }

// rescheduleEx: exiting (if non-nil) is a thread that is about to exit: it is
// not a candidate, and it is marked done only after the (possibly forking)
// choice has been made, so that sibling states can re-execute its Return.
func (s *State) rescheduleEx(exiting *Thread) bool {
	s.exiting = exiting
	defer func() { s.exiting = nil }()
	var cands []int
	for i, t := range s.threads {
		if t.done || t == exiting {
			continue
		}
		w, parked := s.waits()[t.id]
		if !parked {
			w = waitSpec{}
		}
		if s.enabled(t, w) {
			cands = append(cands, i)
		}
	}
	if len(cands) == 0 {
		alive := false
		for _, t := range s.threads {
			if !t.done && t != exiting {
				alive = true
			}
		}
		if alive {
			s.report("deadlock", "no runnable thread", s.currentModel(), "sat")
			s.dead = true
		} else {
			s.finished = true
		}
		return false
	}
	pick := 0
	if len(cands) > 1 {
		pick = s.choose(len(cands), "")
		s.trace = append(s.trace, Choice{"sched", int64(s.threads[cands[pick]].id)})
		stats.schedChoices++
	}
	prev := s.cur
	s.cur = cands[pick]
	nt := s.threads[s.cur]
	if _, parked := s.waits()[nt.id]; parked {
		nt.granted = true
	}
	if s.cur == prev {
		// proceed immediately
		if nt.granted {
			nt.granted = false
			delete(s.waits(), nt.id)
			return true
		}
	}
	return false
}

func (s *State) spawn(fn Value, args []Value) {
	f := fn.(FuncV)
	if f.Fn == nil {
		panic(engineErr("go of non-SSA function"))
	}
	fi := infoOf(f.Fn)
	fr := &Frame{fn: f.Fn, info: fi, regs: make([]Value, fi.n), env: f.Env, block: f.Fn.Blocks[0], ret: retThread}
	copy(fr.regs, args)
	s.threadSeq++
	t := &Thread{id: s.threadSeq, frames: []*Frame{fr}}
	s.threads = append(s.threads, t)
}

func (s *State) threadExit(th *Thread) {
	if len(th.locks) > 0 && !th.leakReported {
		th.leakReported = true
		s.report("lock-leak", fmt.Sprintf("a thread exits while still holding %d lock(s): every later acquisition blocks forever", len(th.locks)), s.currentModel(), "sat")
	}
	s.rescheduleEx(th) // forks happen here, before the exit is applied
	if s.dead {
		return
	}
	th.done = true
	th.frames = nil
	delete(s.waits(), th.id)
}

func regSync() {
	lock := func(kind int) intrinsic {
		return func(s *State, th *Thread, fr *Frame, args []Value, call *ssa.Call, rk retKind) (Value, bool) {
			p := args[0].(PtrV)
			if !s.schedPoint(th, waitSpec{kind: kind, p: p}) {
				return nil, false
			}
			switch kind {
			case 1, 2:
				s.setCellInt(p, 0, 1)
			case 3:
				s.setCellInt(p, 1, s.cellInt(p, 1)+1)
			}
			s.lockEvent(th, p, kind, true)
			return nil, true
		}
	}
	reg("(*sync.Mutex).Lock", lock(1))
	reg("(*sync.RWMutex).Lock", lock(2))
	reg("(*sync.RWMutex).RLock", lock(3))
	reg("(*sync.Mutex).TryLock", func(s *State, th *Thread, fr *Frame, args []Value, call *ssa.Call, rk retKind) (Value, bool) {
		p := args[0].(PtrV)
		if !s.schedPoint(th, waitSpec{}) {
			return nil, false
		}
		if s.cellInt(p, 0) == 0 {
			s.setCellInt(p, 0, 1)
			s.lockEvent(th, p, 1, true)
			return True, true
		}
		return False, true
	})
	simple("(*sync.Mutex).Unlock", func(s *State, a []Value) Value {
		p := a[0].(PtrV)
		if s.cellInt(p, 0) == 0 {
			s.report("panic", "sync: unlock of unlocked mutex", s.currentModel(), "sat")
			s.dead = true
			return nil
		}
		s.setCellInt(p, 0, 0)
		s.lockEvent(s.thread(), p, 1, false)
		return nil
	})
	simple("(*sync.RWMutex).Unlock", func(s *State, a []Value) Value {
		p := a[0].(PtrV)
		if s.cellInt(p, 0) == 0 {
			s.report("panic", "sync: Unlock of unlocked RWMutex", s.currentModel(), "sat")
			s.dead = true
			return nil
		}
		s.setCellInt(p, 0, 0)
		s.lockEvent(s.thread(), p, 2, false)
		return nil
	})
	simple("(*sync.RWMutex).RUnlock", func(s *State, a []Value) Value {
		p := a[0].(PtrV)
		if s.cellInt(p, 1) <= 0 {
			s.report("panic", "sync: RUnlock of unlocked RWMutex", s.currentModel(), "sat")
			s.dead = true
			return nil
		}
		s.setCellInt(p, 1, s.cellInt(p, 1)-1)
		s.lockEvent(s.thread(), p, 3, false)
		return nil
	})
	simple("(*sync.WaitGroup).Add", func(s *State, a []Value) Value {
		p := a[0].(PtrV)
		s.setCellInt(p, 0, s.cellInt(p, 0)+s.cint(a[1]))
		return nil
	})
	simple("(*sync.WaitGroup).Done", func(s *State, a []Value) Value {
		p := a[0].(PtrV)
		s.setCellInt(p, 0, s.cellInt(p, 0)-1)
		return nil
	})
	reg("(*sync.WaitGroup).Wait", func(s *State, th *Thread, fr *Frame, args []Value, call *ssa.Call, rk retKind) (Value, bool) {
		p := args[0].(PtrV)
		if s.cellInt(p, 0) == 0 {
			return nil, true
		}
		if !s.schedPoint(th, waitSpec{kind: 4, p: p}) {
			return nil, false
		}
		return nil, true
	})
}

// lockEvent maintains the per-thread lockset.
func (s *State) lockEvent(th *Thread, p PtrV, kind int, acquire bool) {
	id := p.Obj<<20 | p.Off
	if kind == 3 {
		id = -id // shared
	}
	if acquire {
		th.locks = append(th.locks, id)
		return
	}
	th.epoch++
	for i := len(th.locks) - 1; i >= 0; i-- {
		if th.locks[i] == id {
			th.locks = append(th.locks[:i:i], th.locks[i+1:]...)
			return
		}
	}
}

// ---------- sort ----------

func init() {
	sortH := func(s *State, th *Thread, fr *Frame, args []Value, call *ssa.Call, rk retKind) (Value, bool) {
		// insertion sort driven by the real less closure; needs re-entrant calls,
		// so it is implemented as a small state machine stored in a heap object.
		iv := args[0].(IfaceV)
		sl := iv.V.(SliceV)
		n := s.sliceLen(sl)
		less := args[1].(FuncV)
		if n < 2 {
			return nil, true
		}
		elemN := elemLeaves(sl, s)
		// state object: [i, j] counters
		so := s.newObject([]Value{c64(1), c64(1)}, "sortstate")
		s.sortStep(th, sl, elemN, n, less, so, rk, nil)
		return nil, false
	}
	reg("sort.SliceStable", sortH)
	reg("sort.Slice", sortH)
}

// sortStep runs insertion sort: for i:=1..n-1 { for j:=i; j>0 && less(j, j-1); j-- { swap(j, j-1) } }
// Each less() call pushes a frame whose post hook continues the loop.
func (s *State) sortStep(th *Thread, sl SliceV, elemN, n int, less FuncV, so int, rk retKind, lastLess Value) {
	i := int(s.cellInt(PtrV{Obj: so}, 0))
	j := int(s.cellInt(PtrV{Obj: so}, 1))
	if lastLess != nil {
		ll := s.asExpr(lastLess)
		if !ll.IsConst() {
			panic(engineErr("sort: symbolic comparison result unsupported"))
		}
		if ll.K == 1 {
			// swap j, j-1
			o := s.wobj(sl.Obj)
			a := sl.Off + j*elemN
			b := sl.Off + (j-1)*elemN
			for k := 0; k < elemN; k++ {
				o.Cells[a+k], o.Cells[b+k] = o.Cells[b+k], o.Cells[a+k]
			}
			j--
		} else {
			i++
			j = i
		}
	}
	for {
		if i >= n {
			// done: return nil result from the original call
			fr := th.top()
			if rk == retNormal {
				call := fr.block.Instrs[fr.ip].(*ssa.Call)
				s.set(fr, call, nil)
				s.next(fr)
			} else if rk == retUnwind {
				s.unwind(th)
			}
			return
		}
		if j <= 0 {
			i++
			j = i
			continue
		}
		break
	}
	s.setCellInt(PtrV{Obj: so}, 0, int64(i))
	s.setCellInt(PtrV{Obj: so}, 1, int64(j))
	f := s.pushCall(less.Fn, []Value{c64(j), c64(j - 1)}, less.Env, retDiscard)
	f.post = func(st *State, ret Value) Value {
		st.sortStep(st.thread(), sl, elemN, n, less, so, rk, ret)
		return nil
	}
}

// ---------- gob token model ----------

type gobTok struct {
	fields map[string]gobVal
}

type gobVal struct {
	scalar Value
	list   []gobVal
	strct  map[string]gobVal
	kind   int // 0 scalar 1 list 2 struct
}

var gobTokens []gobVal

const gobTokLen = 16

func (s *State) gobSnapshot(v Value, t types.Type) gobVal {
	switch u := t.Underlying().(type) {
	case *types.Pointer:
		p := v.(PtrV)
		if p.Obj == 0 {
			return gobVal{kind: 2, strct: map[string]gobVal{}}
		}
		return s.gobSnapshot(s.load(p, u.Elem()), u.Elem())
	case *types.Struct:
		g := gobVal{kind: 2, strct: map[string]gobVal{}}
		l := layoutOf(t)
		a := v.(AggV)
		for i := 0; i < u.NumFields(); i++ {
			f := u.Field(i)
			if !f.Exported() {
				continue
			}
			n := layoutOf(f.Type()).n
			g.strct[f.Name()] = s.gobSnapshot(fromLeaves(f.Type(), a[l.fields[i]:l.fields[i]+n]), f.Type())
		}
		return g
	case *types.Slice:
		sl := v.(SliceV)
		n := s.sliceLen(sl)
		en := layoutOf(u.Elem()).n
		g := gobVal{kind: 1}
		for i := 0; i < n; i++ {
			g.list = append(g.list, s.gobSnapshot(fromLeaves(u.Elem(), s.obj(sl.Obj).Cells[sl.Off+i*en:sl.Off+(i+1)*en]), u.Elem()))
		}
		return g
	case *types.Interface:
		iv := v.(IfaceV)
		return s.gobSnapshot(iv.V, iv.T)
	}
	return gobVal{kind: 0, scalar: v}
}

// gobRestore writes g into the location p of type t.
func (s *State) gobRestore(g gobVal, p PtrV, t types.Type) {
	switch u := t.Underlying().(type) {
	case *types.Pointer:
		q := s.load(p, t).(PtrV)
		if q.Obj == 0 {
			q = PtrV{Obj: s.allocType(u.Elem(), "gob alloc")}
			s.store(p, q)
		}
		s.gobRestore(g, q, u.Elem())
	case *types.Struct:
		l := layoutOf(t)
		for i := 0; i < u.NumFields(); i++ {
			f := u.Field(i)
			fv, ok := g.strct[f.Name()]
			if !ok {
				continue
			}
			s.gobRestore(fv, PtrV{Obj: p.Obj, Off: p.Off + l.fields[i]}, f.Type())
		}
	case *types.Slice:
		if len(g.list) == 0 {
			// gob does not transmit empty slices: target untouched
			return
		}
		en := layoutOf(u.Elem()).n
		cells := make([]Value, 0, len(g.list)*en)
		for range g.list {
			cells = append(cells, zeroLeaves(u.Elem(), nil)...)
		}
		id := s.newObject(cells, "gob slice")
		s.heap[id].Elem = u.Elem()
		for i, e := range g.list {
			s.gobRestore(e, PtrV{Obj: id, Off: i * en}, u.Elem())
		}
		s.store(p, SliceV{Obj: id, Len: c64(len(g.list)), Cap: c64(len(g.list))})
	default:
		// gob omits zero values; a zero scalar leaves the target untouched, which is
		// indistinguishable here because targets are fresh. Store directly.
		s.store(p, g.scalar)
	}
}

func gobEqual(a, b gobVal) bool {
	if a.kind != b.kind {
		return false
	}
	switch a.kind {
	case 0:
		ea, ok1 := a.scalar.(*Expr)
		eb, ok2 := b.scalar.(*Expr)
		if ok1 && ok2 {
			return ea == eb
		}
		return a.scalar == b.scalar
	case 1:
		if len(a.list) != len(b.list) {
			return false
		}
		for i := range a.list {
			if !gobEqual(a.list[i], b.list[i]) {
				return false
			}
		}
		return true
	}
	if len(a.strct) != len(b.strct) {
		return false
	}
	for k, v := range a.strct {
		w, ok := b.strct[k]
		if !ok || !gobEqual(v, w) {
			return false
		}
	}
	return true
}

type gobEnc struct{ w Value }
type gobDec struct{ r Value }

func regGob() {
	simple("encoding/gob.NewEncoder", func(s *State, a []Value) Value { return NativeV{&gobEnc{w: a[0]}} })
	simple("encoding/gob.NewDecoder", func(s *State, a []Value) Value { return NativeV{&gobDec{r: a[0]}} })
	reg("(*encoding/gob.Encoder).Encode", func(s *State, th *Thread, fr *Frame, args []Value, call *ssa.Call, rk retKind) (Value, bool) {
		enc := args[0].(NativeV).X.(*gobEnc)
		iv := args[1].(IfaceV)
		stats.stubs["gob.Encode:token"]++
		tok := s.gobSnapshot(iv.V, iv.T)
		id := -1
		for i := range gobTokens {
			if gobEqual(gobTokens[i], tok) {
				id = i // content-addressed: equal values give equal bytes, as with real gob
				break
			}
		}
		if id < 0 {
			gobTokens = append(gobTokens, tok)
			id = len(gobTokens) - 1
		}
		cells := make([]Value, gobTokLen)
		cells[0] = Const(8, 0x7e)
		cells[1] = Const(8, uint64(id>>16))
		cells[2] = Const(8, uint64(id>>8))
		cells[3] = Const(8, uint64(id))
		for i := 4; i < gobTokLen; i++ {
			cells[i] = Const(8, 0x55)
		}
		buf := s.newByteSlice(cells, "gob token")
		w := enc.w.(IfaceV)
		m := lookupMethodByName(w.T, "Write")
		f := s.pushCall(m, []Value{w.V, buf}, nil, rk)
		f.post = func(st *State, ret Value) Value { return ret.(TupleV)[1] }
		return nil, false
	})
	reg("(*encoding/gob.Decoder).Decode", func(s *State, th *Thread, fr *Frame, args []Value, call *ssa.Call, rk retKind) (Value, bool) {
		dec := args[0].(NativeV).X.(*gobDec)
		target := args[1].(IfaceV)
		stats.stubs["gob.Decode:token"]++
		cells := make([]Value, gobTokLen)
		for i := range cells {
			cells[i] = Const(8, 0)
		}
		buf := s.newByteSlice(cells, "gob read buf")
		r := dec.r.(IfaceV)
		m := lookupMethodByName(r.T, "Read")
		f := s.pushCall(m, []Value{r.V, buf}, nil, rk)
		f.post = func(st *State, ret Value) Value {
			tv := ret.(TupleV)
			ne := st.asExpr(tv[0])
			if !ne.IsConst() {
				panic(engineErr("gob decode: symbolic read length unsupported"))
			}
			n := int(ne.K)
			if n == 0 {
				if e, ok := tv[1].(IfaceV); ok && e.T != nil {
					return e
				}
				return nativeErr("io.EOF")
			}
			bs, ok := concreteBytes(st.obj(buf.Obj).Cells[:gobTokLen])
			if n < gobTokLen || !ok || bs[0] != 0x7e {
				return nativeErr("io.ErrUnexpectedEOF")
			}
			for i := 4; i < gobTokLen; i++ {
				if bs[i] != 0x55 {
					return errorsNew(st, "gob: corrupted token")
				}
			}
			id := int(bs[1])<<16 | int(bs[2])<<8 | int(bs[3])
			if id >= len(gobTokens) {
				return errorsNew(st, "gob: unknown token")
			}
			pt := target.T.(*types.Pointer)
			st.gobRestore(gobTokens[id], target.V.(PtrV), pt.Elem())
			return IfaceV{}
		}
		return nil, false
	})
}

func lookupMethodByName(t types.Type, name string) *ssa.Function {
	ms := prog.MethodSets.MethodSet(t)
	for i := 0; i < ms.Len(); i++ {
		if ms.At(i).Obj().Name() == name {
			return prog.MethodValue(ms.At(i))
		}
	}
	panic(engineErr("method " + name + " not found on " + t.String()))
}

var _ = sort.Ints
var _ = os.Stderr
