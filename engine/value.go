package main

import (
	"fmt"
	"go/constant"
	"go/types"
	"strings"

	"golang.org/x/tools/go/ssa"
	"golang.org/x/tools/go/types/typeutil"
)

// Value is one of:
//   *Expr    integer / bool scalar
//   PtrV     pointer (concrete object + leaf offset); Obj==0 is nil
//   SliceV   slice header
//   StrV     concrete string
//   IfaceV   interface value (T==nil is the nil interface)
//   FuncV    function / closure / builtin (Fn==nil && B==nil is nil func)
//   MapV     map reference (Obj==0 is nil map)
//   AggV     struct or array value, flattened to leaves
//   TupleV   multiple results
//   FloatV   float (concrete, or symbolic-unknown)
//   NativeV  opaque engine-side value
type Value interface{}

type PtrV struct {
	Obj int
	Off int
}

type SliceV struct {
	Obj      int
	Off      int   // element offset (in elements), concrete
	Len, Cap *Expr // 64-bit
}

type StrV string

type IfaceV struct {
	T types.Type
	V Value
}

type FuncV struct {
	Fn  *ssa.Function
	B   *ssa.Builtin
	Env []Value
}

type MapV struct{ Obj int }

type AggV []Value

type TupleV []Value

type FloatV struct {
	F   float64
	Sym bool
}

type NativeV struct{ X interface{} }

// nativeErr is the dynamic type given to stdlib sentinel errors.
var nativeErrT = types.NewNamed(types.NewTypeName(0, nil, "nativeErr", nil), types.NewStruct(nil, nil), nil)

func nativeErr(name string) IfaceV { return IfaceV{T: nativeErrT, V: StrV(name)} }

// ---------- type layout ----------

type Layout struct {
	n      int   // number of leaves
	fields []int // struct: leaf offset of each field
	elemN  int   // array: leaves per element
}

var layouts typeutil.Map

func layoutOf(t types.Type) *Layout {
	if l := layouts.At(t); l != nil {
		return l.(*Layout)
	}
	l := &Layout{}
	switch u := t.Underlying().(type) {
	case *types.Struct:
		off := 0
		for i := 0; i < u.NumFields(); i++ {
			l.fields = append(l.fields, off)
			off += layoutOf(u.Field(i).Type()).n
		}
		l.n = off
	case *types.Array:
		l.elemN = layoutOf(u.Elem()).n
		l.n = l.elemN * int(u.Len())
	case *types.Tuple:
		for i := 0; i < u.Len(); i++ {
			l.fields = append(l.fields, l.n)
			l.n += layoutOf(u.At(i).Type()).n
		}
	default:
		l.n = 1
	}
	layouts.Set(t, l)
	return l
}

func isAgg(t types.Type) bool {
	switch t.Underlying().(type) {
	case *types.Struct, *types.Array:
		return true
	}
	return false
}

func basicWidth(b *types.Basic) int {
	switch b.Kind() {
	case types.Bool, types.UntypedBool:
		return 0
	case types.Int8, types.Uint8:
		return 8
	case types.Int16, types.Uint16:
		return 16
	case types.Int32, types.Uint32, types.UntypedRune:
		return 32
	case types.Int, types.Int64, types.Uint, types.Uint64, types.Uintptr, types.UntypedInt:
		return 64
	}
	return -1
}

func isSigned(t types.Type) bool {
	if b, ok := t.Underlying().(*types.Basic); ok {
		return b.Info()&types.IsInteger != 0 && b.Info()&types.IsUnsigned == 0
	}
	return false
}

func isFloat(t types.Type) bool {
	if b, ok := t.Underlying().(*types.Basic); ok {
		return b.Info()&types.IsFloat != 0
	}
	return false
}

func isString(t types.Type) bool {
	if b, ok := t.Underlying().(*types.Basic); ok {
		return b.Info()&types.IsString != 0
	}
	return false
}

func intWidth(t types.Type) int {
	if b, ok := t.Underlying().(*types.Basic); ok {
		return basicWidth(b)
	}
	return -1
}

// zeroLeaves appends the zero value leaves of type t.
func zeroLeaves(t types.Type, out []Value) []Value {
	switch u := t.Underlying().(type) {
	case *types.Struct:
		for i := 0; i < u.NumFields(); i++ {
			out = zeroLeaves(u.Field(i).Type(), out)
		}
		return out
	case *types.Array:
		n := int(u.Len())
		if n == 0 {
			return out
		}
		el := zeroLeaves(u.Elem(), nil)
		for i := 0; i < n; i++ {
			out = append(out, el...)
		}
		return out
	}
	return append(out, zeroScalar(t))
}

func zeroScalar(t types.Type) Value {
	switch u := t.Underlying().(type) {
	case *types.Basic:
		if u.Kind() == types.UnsafePointer {
			return PtrV{}
		}
		if u.Info()&types.IsString != 0 {
			return StrV("")
		}
		if u.Info()&types.IsFloat != 0 {
			return FloatV{}
		}
		if u.Info()&types.IsComplex != 0 {
			return NativeV{complex(0, 0)}
		}
		w := basicWidth(u)
		if w < 0 {
			panic("zeroScalar: basic " + u.String())
		}
		return Const(w, 0)
	case *types.Pointer:
		return PtrV{}
	case *types.Slice:
		return SliceV{Len: Const(64, 0), Cap: Const(64, 0)}
	case *types.Interface:
		return IfaceV{}
	case *types.Signature:
		return FuncV{}
	case *types.Map:
		return MapV{}
	case *types.Chan:
		return NativeV{nil}
	case *types.Tuple:
		var tv TupleV
		for i := 0; i < u.Len(); i++ {
			tv = append(tv, zeroValue(u.At(i).Type()))
		}
		return tv
	case *types.TypeParam:
		panic("zeroScalar: type param")
	}
	panic(fmt.Sprintf("zeroScalar: %T %s", t.Underlying(), t))
}

func zeroValue(t types.Type) Value {
	if isAgg(t) {
		return AggV(zeroLeaves(t, nil))
	}
	return zeroScalar(t)
}

// toLeaves flattens a register value to leaves.
func toLeaves(v Value) []Value {
	if a, ok := v.(AggV); ok {
		return a
	}
	return []Value{v}
}

func fromLeaves(t types.Type, ls []Value) Value {
	if isAgg(t) {
		cp := make(AggV, len(ls))
		copy(cp, ls)
		return cp
	}
	if len(ls) != 1 {
		panic(fmt.Sprintf("fromLeaves: %d leaves for scalar %s", len(ls), t))
	}
	return ls[0]
}

func constValue(c *ssa.Const) Value {
	t := c.Type()
	if c.Value == nil {
		if tp, ok := t.(*types.TypeParam); ok {
			panic("const of type param " + tp.String())
		}
		return zeroValue(t)
	}
	switch u := t.Underlying().(type) {
	case *types.Basic:
		switch {
		case u.Info()&types.IsBoolean != 0:
			return Bool(constant.BoolVal(c.Value))
		case u.Info()&types.IsString != 0:
			return StrV(constant.StringVal(c.Value))
		case u.Info()&types.IsInteger != 0:
			w := basicWidth(u)
			if u.Info()&types.IsUnsigned != 0 {
				x, _ := constant.Uint64Val(constant.ToInt(c.Value))
				return Const(w, x)
			}
			x, _ := constant.Int64Val(constant.ToInt(c.Value))
			return Const(w, uint64(x))
		case u.Info()&types.IsFloat != 0:
			f, _ := constant.Float64Val(c.Value)
			if u.Kind() == types.Float32 {
				f = float64(float32(f))
			}
			return FloatV{F: f}
		case u.Info()&types.IsComplex != 0:
			return NativeV{complex(0, 0)}
		}
	}
	panic(fmt.Sprintf("constValue: %s", c))
}

func showValue(v Value) string {
	switch x := v.(type) {
	case nil:
		return "<nil>"
	case *Expr:
		return x.String()
	case PtrV:
		return fmt.Sprintf("&o%d+%d", x.Obj, x.Off)
	case SliceV:
		return fmt.Sprintf("slice(o%d+%d,len=%s,cap=%s)", x.Obj, x.Off, x.Len, x.Cap)
	case StrV:
		return fmt.Sprintf("%q", string(x))
	case IfaceV:
		if x.T == nil {
			return "iface(nil)"
		}
		return fmt.Sprintf("iface(%s:%s)", x.T, showValue(x.V))
	case FuncV:
		if x.Fn != nil {
			return "func " + x.Fn.String()
		}
		if x.B != nil {
			return "builtin " + x.B.Name()
		}
		return "func(nil)"
	case AggV:
		var s []string
		for _, l := range x {
			s = append(s, showValue(l))
		}
		return "{" + strings.Join(s, ",") + "}"
	case TupleV:
		var s []string
		for _, l := range x {
			s = append(s, showValue(l))
		}
		return "(" + strings.Join(s, ",") + ")"
	}
	return fmt.Sprintf("%v", v)
}
