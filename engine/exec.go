package main

import (
	"fmt"
	"go/token"
	"go/types"
	"math"
	"os"
	"sort"
	"strings"

	"golang.org/x/tools/go/ssa"
)

type fnInfo struct {
	harness bool // harness / prelude code (overlay files zz_verif_*)
	own     bool // pogreb root package, non-harness
	idx     map[ssa.Value]int
	n       int
	headers map[int]bool // loop-header block indices
	freeIdx map[*ssa.FreeVar]int
}

var fnInfos = map[*ssa.Function]*fnInfo{}

func infoOf(fn *ssa.Function) *fnInfo {
	if fi, ok := fnInfos[fn]; ok {
		return fi
	}
	fi := &fnInfo{idx: map[ssa.Value]int{}, headers: map[int]bool{}, freeIdx: map[*ssa.FreeVar]int{}}
	for _, p := range fn.Params {
		fi.idx[p] = fi.n
		fi.n++
	}
	for i, fv := range fn.FreeVars {
		fi.freeIdx[fv] = i
	}
	for _, b := range fn.Blocks {
		for _, in := range b.Instrs {
			if v, ok := in.(ssa.Value); ok {
				fi.idx[v] = fi.n
				fi.n++
			}
		}
		for _, succ := range b.Succs {
			if succ.Dominates(b) {
				fi.headers[succ.Index] = true
			}
		}
	}
	if fn.Pkg != nil || fn.Parent() != nil {
		top := fn
		for top.Parent() != nil {
			top = top.Parent()
		}
		pos := prog.Fset.Position(top.Pos())
		base := shortFile(pos.Filename)
		fi.harness = strings.HasPrefix(base, "zz_verif_")
		if top.Pkg != nil && top.Pkg.Pkg.Path() == "github.com/akrylysov/pogreb" && !fi.harness {
			fi.own = true
		}
		// the OS-backed file objects of package fs are monitored too (ReadAt, Slice and Stat
		// are documented as safe for concurrent use); fs.Mem's own state is not
		if top.Pkg != nil && top.Pkg.Pkg.Path() == "github.com/akrylysov/pogreb/fs" && !fi.harness && strings.HasPrefix(base, "os") {
			fi.own = true
		}
	}
	fnInfos[fn] = fi
	stats.fnsEncoded[fn.String()] = 0
	return fi
}

var constCache = map[*ssa.Const]Value{}

func (s *State) get(fr *Frame, v ssa.Value) Value {
	switch x := v.(type) {
	case *ssa.Const:
		if c, ok := constCache[x]; ok {
			return c
		}
		c := constValue(x)
		constCache[x] = c
		return c
	case *ssa.Global:
		return PtrV{Obj: s.globalObj(x)}
	case *ssa.Function:
		return FuncV{Fn: x}
	case *ssa.Builtin:
		return FuncV{B: x}
	case *ssa.FreeVar:
		return fr.env[fr.info.freeIdx[x]]
	}
	i, ok := fr.info.idx[v]
	if !ok {
		panic(engineErr(fmt.Sprintf("no register for %s in %s", v.Name(), fr.fn)))
	}
	r := fr.regs[i]
	if r == nil {
		panic(engineErr(fmt.Sprintf("read of unset register %s in %s", v.Name(), fr.fn)))
	}
	return r
}

func (s *State) set(fr *Frame, v ssa.Value, x Value) {
	fr.regs[fr.info.idx[v]] = x
}

// canonical names for aliased sentinel errors
var errAlias = map[string]string{
	"os.ErrInvalid": "io/fs.ErrInvalid", "os.ErrPermission": "io/fs.ErrPermission", "os.ErrExist": "io/fs.ErrExist",
	"os.ErrNotExist": "io/fs.ErrNotExist", "os.ErrClosed": "io/fs.ErrClosed",
	"internal/oserror.ErrInvalid": "io/fs.ErrInvalid", "internal/oserror.ErrPermission": "io/fs.ErrPermission",
	"internal/oserror.ErrExist": "io/fs.ErrExist", "internal/oserror.ErrNotExist": "io/fs.ErrNotExist",
	"internal/oserror.ErrClosed": "io/fs.ErrClosed",
}

func (s *State) globalObj(g *ssa.Global) int {
	if id, ok := s.globals[g]; ok {
		return id
	}
	pt := g.Type().(*types.Pointer).Elem()
	id := s.allocType(pt, "global "+g.String())
	s.globals[g] = id
	pkgPath := ""
	if g.Pkg != nil {
		pkgPath = g.Pkg.Pkg.Path()
	}
	if !ownPackage(pkgPath) {
		// stdlib global: sentinel errors get an identity; everything else is zero.
		if types.Identical(pt, errorType) {
			name := pkgPath + "." + g.Name()
			if a, ok := errAlias[name]; ok {
				name = a
			}
			s.heap[id].Cells[0] = nativeErr(name)
		}
	}
	return id
}

var errorType = types.Universe.Lookup("error").Type()

func ownPackage(path string) bool {
	return strings.HasPrefix(path, "github.com/akrylysov/pogreb")
}

// pushCall enters fn with the given args.
func (s *State) pushCall(fn *ssa.Function, args []Value, env []Value, ret retKind) *Frame {
	if fn.Blocks == nil {
		panic(engineErr("call of function without body: " + fn.String()))
	}
	fi := infoOf(fn)
	fr := &Frame{fn: fn, info: fi, regs: make([]Value, fi.n), env: env, block: fn.Blocks[0], ret: ret}
	if len(args) != len(fn.Params) {
		panic(engineErr(fmt.Sprintf("arity mismatch calling %s: %d args, %d params", fn, len(args), len(fn.Params))))
	}
	copy(fr.regs, args)
	th := s.thread()
	th.frames = append(th.frames, fr)
	if len(th.frames) > 200 {
		panic(engineErr("call stack too deep"))
	}
	return fr
}

var unwindCap = 200000

// step executes one instruction of the current thread. It returns false when
// the state is finished (all threads done) or dead.
func (s *State) step() {
	th := s.thread()
	fr := th.top()
	in := fr.block.Instrs[fr.ip]
	s.steps++
	stats.steps++
	if traceExec {
		fmt.Fprintf(os.Stderr, "[s%d t%d] %s: %s\n", s.id, th.id, fr.fn.Name(), instrString(in))
	}
	s.instrChoices = s.instrChoices[:0]
	s.exec(th, fr, in)
}

func instrString(in ssa.Instruction) string {
	if v, ok := in.(ssa.Value); ok {
		return v.Name() + " = " + in.String()
	}
	return in.String()
}

func (s *State) next(fr *Frame) { fr.ip++ }

func (s *State) jump(fr *Frame, to *ssa.BasicBlock) {
	if fr.info.headers[to.Index] {
		if fr.iters == nil {
			fr.iters = map[int]int{}
		}
		fr.iters[to.Index]++
		cap := unwindCap
		if c, ok := s.flags["unwind"]; ok {
			cap = int(c)
		}
		if fr.iters[to.Index] > cap {
			unwindFailures[fr.fn.String()+fmt.Sprintf("#b%d", to.Index)]++
			s.dead = true
			return
		}
	}
	fr.prev = fr.block
	fr.block = to
	fr.ip = 0
	// phis
	var n int
	for n = 0; n < len(to.Instrs); n++ {
		if _, ok := to.Instrs[n].(*ssa.Phi); !ok {
			break
		}
	}
	if n > 0 {
		pi := -1
		for i, p := range to.Preds {
			if p == fr.prev {
				pi = i
				break
			}
		}
		vals := make([]Value, n)
		for i := 0; i < n; i++ {
			vals[i] = s.get(fr, to.Instrs[i].(*ssa.Phi).Edges[pi])
		}
		for i := 0; i < n; i++ {
			s.set(fr, to.Instrs[i].(*ssa.Phi), vals[i])
		}
		fr.ip = n
	}
}

func (s *State) asExpr(v Value) *Expr {
	e, ok := v.(*Expr)
	if !ok {
		panic(engineErr(fmt.Sprintf("expected scalar, got %s", showValue(v))))
	}
	return e
}

// index64 converts an integer value of Go type t to a 64-bit expression.
func index64(e *Expr, t types.Type) *Expr { return Resize(e, 64, isSigned(t)) }

func (s *State) nilCheck(p PtrV, what string) bool {
	if p.Obj == 0 {
		s.report("panic", "nil pointer dereference: "+what, s.currentModel(), "sat")
		s.dead = true
		return false
	}
	return true
}

func (s *State) exec(th *Thread, fr *Frame, in ssa.Instruction) {
	switch x := in.(type) {
	case *ssa.DebugRef:
		s.next(fr)

	case *ssa.Alloc:
		t := x.Type().(*types.Pointer).Elem()
		id := s.allocType(t, x.Comment)
		s.heap[id].Own = fr.info.own
		s.countAlloc(int64(layoutOf(t).n)*8, nil)
		s.set(fr, x, PtrV{Obj: id})
		s.next(fr)

	case *ssa.BinOp:
		a, b := s.get(fr, x.X), s.get(fr, x.Y)
		r, ok := s.binop(x.Op, a, b, x.X.Type(), x.Y.Type())
		if !ok {
			return
		}
		s.set(fr, x, r)
		s.next(fr)

	case *ssa.UnOp:
		a := s.get(fr, x.X)
		switch x.Op {
		case token.MUL:
			p := a.(PtrV)
			if !s.nilCheck(p, "load") {
				return
			}
			s.monitor(fr, p.Obj, p.Off, layoutOf(x.Type()).n, false)
			s.set(fr, x, s.load(p, x.Type()))
		case token.NOT:
			s.set(fr, x, Not(s.asExpr(a)))
		case token.SUB:
			if f, ok := a.(FloatV); ok {
				f.F = -f.F
				s.set(fr, x, f)
			} else {
				s.set(fr, x, Neg(s.asExpr(a)))
			}
		case token.XOR:
			s.set(fr, x, BNot(s.asExpr(a)))
		default:
			panic(engineErr("unop " + x.Op.String()))
		}
		s.next(fr)

	case *ssa.Phi:
		panic(engineErr("phi executed directly"))

	case *ssa.Jump:
		s.jump(fr, fr.block.Succs[0])

	case *ssa.If:
		c := s.asExpr(s.get(fr, x.Cond))
		if s.branch(c) {
			s.jump(fr, fr.block.Succs[0])
		} else {
			s.jump(fr, fr.block.Succs[1])
		}

	case *ssa.Return:
		var ret Value
		switch len(x.Results) {
		case 0:
			ret = nil
		case 1:
			ret = s.get(fr, x.Results[0])
		default:
			tv := make(TupleV, len(x.Results))
			for i, r := range x.Results {
				tv[i] = s.get(fr, r)
			}
			ret = tv
		}
		s.doReturn(th, ret)

	case *ssa.RunDefers:
		if len(fr.defers) == 0 {
			s.next(fr)
			return
		}
		d := fr.defers[len(fr.defers)-1]
		fr.defers = fr.defers[:len(fr.defers)-1]
		s.invoke(th, fr, d.fn, d.args, nil, retDiscard)

	case *ssa.Panic:
		s.startPanic(th, s.get(fr, x.X))

	case *ssa.Call:
		fn, args := s.prepareCall(fr, &x.Call)
		if s.dead {
			return
		}
		s.invoke(th, fr, fn, args, x, retNormal)

	case *ssa.Defer:
		fn, args := s.prepareCall(fr, &x.Call)
		if s.dead {
			return
		}
		fr.defers = append(fr.defers, Deferred{fn: fn, args: args})
		s.next(fr)

	case *ssa.Go:
		fn, args := s.prepareCall(fr, &x.Call)
		if s.dead {
			return
		}
		s.spawn(fn, args)
		s.next(fr)

	case *ssa.ChangeInterface:
		s.set(fr, x, s.get(fr, x.X))
		s.next(fr)

	case *ssa.ChangeType:
		s.set(fr, x, s.get(fr, x.X))
		s.next(fr)

	case *ssa.Convert:
		s.set(fr, x, s.convert(s.get(fr, x.X), x.X.Type(), x.Type()))
		s.next(fr)

	case *ssa.MakeInterface:
		s.set(fr, x, IfaceV{T: x.X.Type(), V: s.get(fr, x.X)})
		s.next(fr)

	case *ssa.MakeClosure:
		env := make([]Value, len(x.Bindings))
		for i, b := range x.Bindings {
			env[i] = s.get(fr, b)
		}
		s.set(fr, x, FuncV{Fn: x.Fn.(*ssa.Function), Env: env})
		s.next(fr)

	case *ssa.MakeMap:
		id := s.newObject(nil, "map")
		o := s.heap[id]
		o.IsMap = true
		o.M = map[interface{}]Value{}
		s.set(fr, x, MapV{Obj: id})
		s.next(fr)

	case *ssa.MakeSlice:
		et := x.Type().Underlying().(*types.Slice).Elem()
		ln := index64(s.asExpr(s.get(fr, x.Len)), x.Len.Type())
		cp := index64(s.asExpr(s.get(fr, x.Cap)), x.Cap.Type())
		elemN := layoutOf(et).n
		if !s.countAlloc(0, Mul(cp, Const(64, uint64(elemN*elemBytes(et))))) {
			return
		}
		if !s.check(And(Sle(Const(64, 0), ln), Sle(ln, cp)), "panic", "makeslice: len out of range") {
			s.dead = true
			return
		}
		if !cp.IsConst() {
			// symbolic capacity: virtual backing object, no enumeration of sizes
			id := s.newObject(nil, "makeslice(sym)")
			s.heap[id].Own = fr.info.own
			s.heap[id].Elem = et
			s.heap[id].Virtual = true
			stats.stubs["makeslice:symbolic-length"]++
			s.set(fr, x, SliceV{Obj: id, Off: 0, Len: ln, Cap: cp})
			s.next(fr)
			return
		}
		c := int(cp.K)
		if c > 1<<24 {
			panic(engineErr(fmt.Sprintf("makeslice: concrete cap %d too large to materialise", c)))
		}
		cells := make([]Value, 0, c*elemN)
		zl := zeroLeaves(et, nil)
		for i := 0; i < c; i++ {
			cells = append(cells, zl...)
		}
		id := s.newObject(cells, "makeslice")
		s.heap[id].Own = fr.info.own
		s.heap[id].Elem = et
		s.set(fr, x, SliceV{Obj: id, Off: 0, Len: ln, Cap: Const(64, uint64(c))})
		s.next(fr)

	case *ssa.FieldAddr:
		p := s.get(fr, x.X).(PtrV)
		if !s.nilCheck(p, "field "+x.String()) {
			return
		}
		st := x.X.Type().Underlying().(*types.Pointer).Elem()
		s.set(fr, x, PtrV{Obj: p.Obj, Off: p.Off + layoutOf(st).fields[x.Field]})
		s.next(fr)

	case *ssa.Field:
		a := s.get(fr, x.X).(AggV)
		l := layoutOf(x.X.Type())
		off := l.fields[x.Field]
		n := layoutOf(x.Type()).n
		s.set(fr, x, fromLeaves(x.Type(), a[off:off+n]))
		s.next(fr)

	case *ssa.IndexAddr:
		base := s.get(fr, x.X)
		idx := index64(s.asExpr(s.get(fr, x.Index)), x.Index.Type())
		var obj, off, elemN int
		var ln *Expr
		switch b := base.(type) {
		case PtrV:
			if !s.nilCheck(b, "indexaddr") {
				return
			}
			at := x.X.Type().Underlying().(*types.Pointer).Elem().Underlying().(*types.Array)
			elemN = layoutOf(at.Elem()).n
			obj, off, ln = b.Obj, b.Off, Const(64, uint64(at.Len()))
		case SliceV:
			et := x.X.Type().Underlying().(*types.Slice).Elem()
			elemN = layoutOf(et).n
			obj, off, ln = b.Obj, b.Off, b.Len
		default:
			panic(engineErr("indexaddr base " + showValue(base)))
		}
		if !s.check(Ult(idx, ln), "panic", "index out of range") {
			s.dead = true
			return
		}
		i := int(s.concretize(idx, "index"))
		s.set(fr, x, PtrV{Obj: obj, Off: off + i*elemN})
		s.next(fr)

	case *ssa.Index:
		base := s.get(fr, x.X)
		idx := index64(s.asExpr(s.get(fr, x.Index)), x.Index.Type())
		switch b := base.(type) {
		case AggV:
			at := x.X.Type().Underlying().(*types.Array)
			elemN := layoutOf(at.Elem()).n
			if !s.check(Ult(idx, Const(64, uint64(at.Len()))), "panic", "index out of range") {
				s.dead = true
				return
			}
			i := int(s.concretize(idx, "index"))
			s.set(fr, x, fromLeaves(x.Type(), b[i*elemN:(i+1)*elemN]))
		case StrV:
			if !s.check(Ult(idx, Const(64, uint64(len(b)))), "panic", "string index out of range") {
				s.dead = true
				return
			}
			i := int(s.concretize(idx, "index"))
			s.set(fr, x, Const(8, uint64(b[i])))
		default:
			panic(engineErr("index base " + showValue(base)))
		}
		s.next(fr)

	case *ssa.Slice:
		if !s.execSlice(fr, x) {
			return
		}
		s.next(fr)

	case *ssa.Store:
		p := s.get(fr, x.Addr).(PtrV)
		if !s.nilCheck(p, "store") {
			return
		}
		s.monitor(fr, p.Obj, p.Off, layoutOf(x.Val.Type()).n, true)
		s.store(p, s.get(fr, x.Val))
		s.next(fr)

	case *ssa.Extract:
		s.set(fr, x, s.get(fr, x.Tuple).(TupleV)[x.Index])
		s.next(fr)

	case *ssa.TypeAssert:
		s.typeAssert(fr, x)

	case *ssa.Lookup:
		s.lookup(fr, x)

	case *ssa.MapUpdate:
		m := s.get(fr, x.Map).(MapV)
		if m.Obj == 0 {
			s.report("panic", "assignment to entry in nil map", s.currentModel(), "sat")
			s.dead = true
			return
		}
		k := s.mapKey(s.get(fr, x.Key))
		o := s.wobj(m.Obj)
		if _, ok := o.M[k]; !ok {
			o.Keys = append(o.Keys, k)
		}
		o.M[k] = s.get(fr, x.Value)
		s.next(fr)

	case *ssa.Range:
		src := s.get(fr, x.X)
		switch m := src.(type) {
		case MapV:
			var keys []interface{}
			if m.Obj != 0 {
				keys = append(keys, s.obj(m.Obj).Keys...)
				sort.Slice(keys, func(i, j int) bool { return fmt.Sprint(keys[i]) < fmt.Sprint(keys[j]) })
			}
			pos := s.newObject([]Value{Const(64, 0)}, "rangeiter")
			s.set(fr, x, NativeV{&rangeIter{keys: keys, m: m, pos: pos, kt: x.X.Type().Underlying().(*types.Map).Key()}})
		case StrV:
			pos := s.newObject([]Value{Const(64, 0)}, "rangeiter")
			s.set(fr, x, NativeV{&rangeIter{str: string(m), isStr: true, pos: pos}})
		default:
			panic(engineErr("range over " + showValue(src)))
		}
		s.next(fr)

	case *ssa.Next:
		it := s.get(fr, x.Iter).(NativeV).X.(*rangeIter)
		p := PtrV{Obj: it.pos}
		i := int(s.asExpr(s.load(p, types.Typ[types.Int])).K)
		if it.isStr {
			if i >= len(it.str) {
				s.set(fr, x, TupleV{False, Const(64, 0), Const(32, 0)})
			} else {
				r, sz := decodeRune(it.str[i:])
				s.store(p, Const(64, uint64(i+sz)))
				s.set(fr, x, TupleV{True, Const(64, uint64(i)), Const(32, uint64(r))})
			}
		} else {
			// skip deleted keys
			for i < len(it.keys) {
				if _, ok := s.obj(it.m.Obj).M[it.keys[i]]; ok {
					break
				}
				i++
			}
			if i >= len(it.keys) {
				mt := x.Iter.(*ssa.Range).X.Type().Underlying().(*types.Map)
				s.set(fr, x, TupleV{False, zeroValue(mt.Key()), zeroValue(mt.Elem())})
			} else {
				k := it.keys[i]
				s.store(p, Const(64, uint64(i+1)))
				s.set(fr, x, TupleV{True, s.unmapKey(k, it.kt), s.obj(it.m.Obj).M[k]})
			}
		}
		s.next(fr)

	case *ssa.Select:
		s.execSelect(th, fr, x)

	case *ssa.MakeChan:
		// channels exist only in native replay code (prelude scheduler); opaque here
		s.set(fr, x, NativeV{"chan"})
		s.next(fr)

	case *ssa.SliceToArrayPointer:
		sl := s.get(fr, x.X).(SliceV)
		s.set(fr, x, PtrV{Obj: sl.Obj, Off: sl.Off})
		s.next(fr)

	default:
		panic(engineErr(fmt.Sprintf("unsupported instruction %T: %s", in, in)))
	}
}

type rangeIter struct {
	keys  []interface{}
	m     MapV
	pos   int
	kt    types.Type
	isStr bool
	str   string
}

func decodeRune(s string) (rune, int) {
	for i, r := range s {
		_ = i
		n := len(string(r))
		if r == 0xFFFD && (len(s) < 3 || s[:3] != "�") {
			n = 1
		}
		return r, n
	}
	return 0, 0
}

func elemBytes(t types.Type) int {
	// approximate byte size of one leaf-element for allocation accounting
	if b, ok := t.Underlying().(*types.Basic); ok {
		w := basicWidth(b)
		if w > 0 {
			return w / 8
		}
		if w == 0 {
			return 1
		}
	}
	return 8
}

func (s *State) mapKey(v Value) interface{} {
	switch k := v.(type) {
	case StrV:
		return string(k)
	case *Expr:
		return s.concretize(k, "map key")
	case PtrV:
		return k
	case IfaceV:
		return fmt.Sprintf("%v|%v", k.T, s.mapKey(k.V))
	}
	panic(engineErr("unsupported map key " + showValue(v)))
}

func (s *State) unmapKey(k interface{}, t types.Type) Value {
	switch x := k.(type) {
	case string:
		return StrV(x)
	case uint64:
		return Const(intWidth(t), x)
	case PtrV:
		return x
	}
	panic(engineErr("unmapKey"))
}

func (s *State) lookup(fr *Frame, x *ssa.Lookup) {
	src := s.get(fr, x.X)
	switch m := src.(type) {
	case StrV:
		idx := index64(s.asExpr(s.get(fr, x.Index)), x.Index.Type())
		if !s.check(Ult(idx, Const(64, uint64(len(m)))), "panic", "string index out of range") {
			s.dead = true
			return
		}
		i := int(s.concretize(idx, "index"))
		s.set(fr, x, Const(8, uint64(m[i])))
	case MapV:
		et := x.X.Type().Underlying().(*types.Map).Elem()
		var v Value
		found := false
		if m.Obj != 0 {
			k := s.mapKey(s.get(fr, x.Index))
			v, found = s.obj(m.Obj).M[k]
		}
		if !found {
			v = zeroValue(et)
		}
		if x.CommaOk {
			s.set(fr, x, TupleV{v, Bool(found)})
		} else {
			s.set(fr, x, v)
		}
	default:
		panic(engineErr("lookup in " + showValue(src)))
	}
	s.next(fr)
}

func (s *State) execSlice(fr *Frame, x *ssa.Slice) bool {
	base := s.get(fr, x.X)
	var lo, hi, mx *Expr
	if x.Low != nil {
		lo = index64(s.asExpr(s.get(fr, x.Low)), x.Low.Type())
	} else {
		lo = Const(64, 0)
	}
	if x.High != nil {
		hi = index64(s.asExpr(s.get(fr, x.High)), x.High.Type())
	}
	if x.Max != nil {
		mx = index64(s.asExpr(s.get(fr, x.Max)), x.Max.Type())
	}
	switch b := base.(type) {
	case StrV:
		if hi == nil {
			hi = Const(64, uint64(len(b)))
		}
		if !s.check(And(Ule(lo, hi), Ule(hi, Const(64, uint64(len(b))))), "panic", "string slice bounds out of range") {
			s.dead = true
			return false
		}
		l, h := s.concretize(lo, "slice lo"), s.concretize(hi, "slice hi")
		s.set(fr, x, StrV(b[l:h]))
		return true
	case SliceV, PtrV:
		var obj, off, elemN int
		var ln, cp *Expr
		if p, ok := b.(PtrV); ok {
			if !s.nilCheck(p, "slice of array pointer") {
				return false
			}
			at := x.X.Type().Underlying().(*types.Pointer).Elem().Underlying().(*types.Array)
			elemN = layoutOf(at.Elem()).n
			obj, off = p.Obj, p.Off
			ln = Const(64, uint64(at.Len()))
			cp = ln
		} else {
			sl := b.(SliceV)
			et := x.X.Type().Underlying().(*types.Slice).Elem()
			elemN = layoutOf(et).n
			obj, off, ln, cp = sl.Obj, sl.Off, sl.Len, sl.Cap
		}
		_ = ln
		if hi == nil {
			hi = ln
		}
		if mx == nil {
			mx = cp
		}
		cond := And(Ule(lo, hi), And(Ule(hi, mx), Ule(mx, cp)))
		if !s.check(cond, "panic", "slice bounds out of range") {
			s.dead = true
			return false
		}
		l := int(s.concretize(lo, "slice lo"))
		if obj == 0 {
			// nil slice sliced [0:0]
			s.set(fr, x, SliceV{Len: Const(64, 0), Cap: Const(64, 0)})
			return true
		}
		s.set(fr, x, SliceV{Obj: obj, Off: off + l*elemN, Len: Sub(hi, lo), Cap: Sub(mx, lo)})
		return true
	}
	panic(engineErr("slice of " + showValue(base)))
}

func (s *State) typeAssert(fr *Frame, x *ssa.TypeAssert) {
	iv := s.get(fr, x.X).(IfaceV)
	ok := false
	var res Value
	if iv.T != nil {
		if types.IsInterface(x.AssertedType) {
			it := x.AssertedType.Underlying().(*types.Interface)
			if iv.T == nativeErrT {
				ok = it.NumMethods() == 0 || types.Identical(x.AssertedType, errorType)
			} else {
				ok = types.Implements(iv.T, it)
			}
			res = iv
		} else {
			ok = types.Identical(iv.T, x.AssertedType)
			res = iv.V
		}
	}
	if x.CommaOk {
		if !ok {
			res = zeroValue(x.AssertedType)
		}
		s.set(fr, x, TupleV{res, Bool(ok)})
		s.next(fr)
		return
	}
	if !ok {
		s.startPanic(s.thread(), IfaceV{T: types.Typ[types.String], V: StrV("interface conversion failed: " + x.String())})
		return
	}
	s.set(fr, x, res)
	s.next(fr)
}

func (s *State) convert(v Value, from, to types.Type) Value {
	fu, tu := from.Underlying(), to.Underlying()
	switch t := tu.(type) {
	case *types.Basic:
		switch {
		case t.Info()&types.IsInteger != 0:
			switch a := v.(type) {
			case *Expr:
				return Resize(a, basicWidth(t), isSigned(from))
			case FloatV:
				if a.Sym {
					panic(engineErr("convert symbolic float to int"))
				}
				w := basicWidth(t)
				if t.Info()&types.IsUnsigned != 0 {
					return Const(w, uint64(a.F))
				}
				return Const(w, uint64(int64(a.F)))
			case PtrV:
				// uintptr(unsafe.Pointer(p)): opaque
				return Const(64, uint64(a.Obj)<<32|uint64(a.Off))
			}
		case t.Info()&types.IsFloat != 0:
			switch a := v.(type) {
			case *Expr:
				if !a.IsConst() {
					return FloatV{Sym: true}
				}
				var f float64
				if isSigned(from) {
					f = float64(sext64(a.K, a.W))
				} else {
					f = float64(a.K)
				}
				if t.Kind() == types.Float32 {
					f = float64(float32(f))
				}
				return FloatV{F: f}
			case FloatV:
				if t.Kind() == types.Float32 && !a.Sym {
					a.F = float64(float32(a.F))
				}
				return a
			}
		case t.Info()&types.IsString != 0:
			switch a := v.(type) {
			case StrV:
				return a
			case SliceV:
				// []byte -> string : contents must be concrete
				n := int(s.concretize(a.Len, "string(bytes) len"))
				bs := make([]byte, n)
				for i := 0; i < n; i++ {
					c := s.asExpr(s.obj(a.Obj).Cells[a.Off+i])
					bs[i] = byte(s.concretize(c, "string(bytes) content"))
				}
				return StrV(bs)
			case *Expr:
				return StrV(string(rune(s.concretize(a, "string(rune)"))))
			}
		case t.Kind() == types.UnsafePointer:
			return v
		}
	case *types.Slice:
		if sv, ok := v.(StrV); ok {
			if b, ok := t.Elem().Underlying().(*types.Basic); ok && b.Kind() == types.Uint8 {
				cells := make([]Value, len(sv))
				for i := 0; i < len(sv); i++ {
					cells[i] = Const(8, uint64(sv[i]))
				}
				id := s.newObject(cells, "[]byte(string)")
				return SliceV{Obj: id, Len: Const(64, uint64(len(sv))), Cap: Const(64, uint64(len(sv)))}
			}
		}
	case *types.Pointer:
		return v
	}
	panic(engineErr(fmt.Sprintf("convert %s (%s) -> %s", showValue(v), fu, tu)))
}

func (s *State) binop(op token.Token, a, b Value, ta, tb types.Type) (Value, bool) {
	switch x := a.(type) {
	case *Expr:
		y, ok := b.(*Expr)
		if !ok {
			panic(engineErr("binop scalar vs " + showValue(b)))
		}
		signed := isSigned(ta)
		switch op {
		case token.ADD:
			return Add(x, y), true
		case token.SUB:
			return Sub(x, y), true
		case token.MUL:
			return Mul(x, y), true
		case token.QUO, token.REM:
			if !s.check(Ne(y, Const(y.W, 0)), "panic", "integer divide by zero") {
				s.dead = true
				return nil, false
			}
			if op == token.QUO {
				if signed {
					return SDiv(x, y), true
				}
				return UDiv(x, y), true
			}
			if signed {
				return SRem(x, y), true
			}
			return URem(x, y), true
		case token.AND:
			if x.W == 0 {
				return And(x, y), true
			}
			return BAnd(x, y), true
		case token.OR:
			if x.W == 0 {
				return Or(x, y), true
			}
			return BOr(x, y), true
		case token.XOR:
			if x.W == 0 {
				return Ne(x, y), true
			}
			return BXor(x, y), true
		case token.AND_NOT:
			return BAnd(x, BNot(y)), true
		case token.SHL, token.SHR:
			// shift count: y has its own type tb; negative signed count panics
			if isSigned(tb) {
				if !s.check(Sge(y, Const(y.W, 0)), "panic", "negative shift amount") {
					s.dead = true
					return nil, false
				}
			}
			var amt *Expr
			if y.W == x.W {
				amt = y
			} else if y.W < x.W {
				amt = ZExt(y, x.W)
			} else {
				// saturate
				if y.IsConst() {
					if y.K >= uint64(x.W) {
						amt = Const(x.W, uint64(x.W))
					} else {
						amt = Const(x.W, y.K)
					}
				} else {
					amt = Ite(Uge(y, Const(y.W, uint64(x.W))), Const(x.W, uint64(x.W)), Trunc(y, x.W))
				}
			}
			if op == token.SHL {
				return Shl(x, amt), true
			}
			if signed {
				return AShr(x, amt), true
			}
			return LShr(x, amt), true
		case token.EQL:
			return Eq(x, y), true
		case token.NEQ:
			return Ne(x, y), true
		case token.LSS:
			if signed {
				return Slt(x, y), true
			}
			return Ult(x, y), true
		case token.LEQ:
			if signed {
				return Sle(x, y), true
			}
			return Ule(x, y), true
		case token.GTR:
			if signed {
				return Sgt(x, y), true
			}
			return Ugt(x, y), true
		case token.GEQ:
			if signed {
				return Sge(x, y), true
			}
			return Uge(x, y), true
		}
	case StrV:
		y := b.(StrV)
		switch op {
		case token.ADD:
			return x + y, true
		case token.EQL:
			return Bool(x == y), true
		case token.NEQ:
			return Bool(x != y), true
		case token.LSS:
			return Bool(x < y), true
		case token.LEQ:
			return Bool(x <= y), true
		case token.GTR:
			return Bool(x > y), true
		case token.GEQ:
			return Bool(x >= y), true
		}
	case FloatV:
		y := b.(FloatV)
		if x.Sym || y.Sym {
			switch op {
			case token.ADD, token.SUB, token.MUL, token.QUO:
				return FloatV{Sym: true}, true
			default:
				stats.fpAbstract++
				return Var(fmt.Sprintf("fpcmp!%d", stats.fpAbstract), 0), true
			}
		}
		f32 := false
		if bt, ok := ta.Underlying().(*types.Basic); ok && bt.Kind() == types.Float32 {
			f32 = true
		}
		rnd := func(f float64) Value {
			if f32 {
				f = float64(float32(f))
			}
			return FloatV{F: f}
		}
		switch op {
		case token.ADD:
			return rnd(x.F + y.F), true
		case token.SUB:
			return rnd(x.F - y.F), true
		case token.MUL:
			return rnd(x.F * y.F), true
		case token.QUO:
			return rnd(x.F / y.F), true
		case token.EQL:
			return Bool(x.F == y.F), true
		case token.NEQ:
			return Bool(x.F != y.F), true
		case token.LSS:
			return Bool(x.F < y.F), true
		case token.LEQ:
			return Bool(x.F <= y.F), true
		case token.GTR:
			return Bool(x.F > y.F), true
		case token.GEQ:
			return Bool(x.F >= y.F), true
		}
	default:
		switch op {
		case token.EQL:
			return s.valuesEqual(a, b), true
		case token.NEQ:
			return Not(s.valuesEqual(a, b)), true
		}
	}
	panic(engineErr(fmt.Sprintf("binop %s on %s, %s", op, showValue(a), showValue(b))))
}

// valuesEqual implements == on non-scalar comparable values.
func (s *State) valuesEqual(a, b Value) *Expr {
	switch x := a.(type) {
	case *Expr:
		if y, ok := b.(*Expr); ok && x.W == y.W {
			return Eq(x, y)
		}
		return False
	case PtrV:
		y, ok := b.(PtrV)
		return Bool(ok && x == y)
	case StrV:
		y, ok := b.(StrV)
		return Bool(ok && x == y)
	case IfaceV:
		y, ok := b.(IfaceV)
		if !ok {
			return False
		}
		if x.T == nil || y.T == nil {
			return Bool(x.T == nil && y.T == nil)
		}
		if !types.Identical(x.T, y.T) {
			return False
		}
		return s.valuesEqual(x.V, y.V)
	case SliceV:
		// only comparison with nil is legal
		y := b.(SliceV)
		return Bool(x.Obj == 0 && y.Obj == 0)
	case MapV:
		y := b.(MapV)
		return Bool(x.Obj == y.Obj)
	case ClosureNativeV:
		return False
	case FuncV:
		if _, ok := b.(ClosureNativeV); ok {
			return False
		}
		y := b.(FuncV)
		return Bool(x.Fn == nil && x.B == nil && y.Fn == nil && y.B == nil)
	case AggV:
		y, ok := b.(AggV)
		if !ok || len(x) != len(y) {
			return False
		}
		r := True
		for i := range x {
			r = And(r, s.valuesEqual(x[i], y[i]))
		}
		return r
	case NativeV:
		y, ok := b.(NativeV)
		return Bool(ok && x.X == y.X)
	case FloatV:
		y := b.(FloatV)
		return Bool(!x.Sym && !y.Sym && x.F == y.F)
	case nil:
		return Bool(b == nil)
	}
	panic(engineErr("valuesEqual " + showValue(a)))
}

// ---------- calls ----------

func (s *State) prepareCall(fr *Frame, c *ssa.CallCommon) (Value, []Value) {
	var fn Value
	var args []Value
	if c.IsInvoke() {
		recv := s.get(fr, c.Value).(IfaceV)
		if recv.T == nil {
			s.report("panic", "method call on nil interface: "+c.Method.Name(), s.currentModel(), "sat")
			s.dead = true
			return nil, nil
		}
		if recv.T == nativeErrT {
			fn = NativeV{"nativeErr." + c.Method.Name()}
			args = append(args, recv.V)
		} else if nv, ok := recv.V.(NativeV); ok {
			fn = NativeV{fmt.Sprintf("native:%T.%s", nv.X, c.Method.Name())}
			args = append(args, recv.V)
		} else {
			m := lookupMethod(recv.T, c.Method)
			if m == nil {
				panic(engineErr(fmt.Sprintf("method %s not found on %s", c.Method.Name(), recv.T)))
			}
			fn = FuncV{Fn: m}
			args = append(args, recv.V)
		}
	} else {
		fn = s.get(fr, c.Value)
	}
	for _, a := range c.Args {
		args = append(args, s.get(fr, a))
	}
	return fn, args
}

func lookupMethod(t types.Type, meth *types.Func) *ssa.Function {
	sel := prog.MethodSets.MethodSet(t).Lookup(meth.Pkg(), meth.Name())
	if sel == nil {
		return nil
	}
	return prog.MethodValue(sel)
}

// invoke calls fn. call is the instruction (may be nil) that receives the result.
func (s *State) invoke(th *Thread, fr *Frame, fn Value, args []Value, call *ssa.Call, rk retKind) {
	switch f := fn.(type) {
	case FuncV:
		if f.B != nil {
			res, ok := s.builtin(f.B.Name(), args, call)
			if !ok {
				return
			}
			s.finishInline(th, fr, call, res, rk)
			return
		}
		if f.Fn == nil {
			s.report("panic", "call of nil function", s.currentModel(), "sat")
			s.dead = true
			return
		}
		name := f.Fn.String()
		if f.Fn.Origin() != nil {
			name = f.Fn.Origin().String()
		}
		if h, ok := intrinsics[name]; ok {
			res, done := h(s, th, fr, args, call, rk)
			if !done {
				return // intrinsic pushed a frame, blocked, or killed the state
			}
			s.finishInline(th, fr, call, res, rk)
			return
		}
		if f.Fn.Blocks == nil {
			panic(engineErr("no body and no intrinsic for " + name))
		}
		if f.Fn.Synthetic == "package initializer" && !ownPackage(f.Fn.Pkg.Pkg.Path()) {
			s.finishInline(th, fr, call, nil, rk)
			return
		}
		stats.calls++
		s.pushCall(f.Fn, args, f.Env, rk)
	case ClosureNativeV:
		h, ok := intrinsics[f.Name]
		if !ok {
			panic(engineErr("no native handler " + f.Name))
		}
		res, done := h(s, th, fr, append(append([]Value(nil), f.Env...), args...), call, rk)
		if !done {
			return
		}
		s.finishInline(th, fr, call, res, rk)
	case NativeV:
		name := f.X.(string)
		h, ok := intrinsics[name]
		if !ok {
			panic(engineErr("no native handler " + name))
		}
		res, done := h(s, th, fr, args, call, rk)
		if !done {
			return
		}
		s.finishInline(th, fr, call, res, rk)
	default:
		panic(engineErr("invoke of " + showValue(fn)))
	}
}

// finishInline completes a call that was evaluated without pushing a frame.
func (s *State) finishInline(th *Thread, fr *Frame, call *ssa.Call, res Value, rk retKind) {
	switch rk {
	case retNormal:
		if call != nil {
			s.set(fr, call, res)
		}
		s.next(fr)
	case retDiscard:
		// RunDefers: stay on the instruction
	case retUnwind:
		s.unwind(th)
	}
}

func (s *State) doReturn(th *Thread, ret Value) {
	fr := th.top()
	if fr.ret == retThread && fr.post == nil && len(th.frames) == 1 {
		s.threadExit(th)
		return
	}
	th.frames = th.frames[:len(th.frames)-1]
	if fr.post != nil {
		ret = fr.post(s, ret)
		if s.dead {
			return
		}
	}
	switch fr.ret {
	case retNormal:
		caller := th.top()
		call := caller.block.Instrs[caller.ip].(*ssa.Call)
		s.set(caller, call, ret)
		s.next(caller)
	case retDiscard:
		// caller stays on RunDefers
	case retUnwind:
		s.unwind(th)
	case retThread:
		s.threadExit(th)
	}
}

// ---------- panics ----------

func (s *State) startPanic(th *Thread, v Value) {
	th.panicking = true
	th.panicVal = v
	th.top().unwinding = true
	s.unwind(th)
}

func (s *State) unwind(th *Thread) {
	for {
		if len(th.frames) == 0 {
			if th != s.threads[0] && s.isCrashSignal(th.panicVal) {
				// process death (harness crash signal) raised inside a spawned thread:
				// every spawned thread stops at once, the harness thread's vJoin re-raises it
				s.crashPending = th.panicVal
				for _, t := range s.threads[1:] {
					t.done = true
					t.frames = nil
					t.locks = nil
					t.panicking = false
					delete(s.waits(), t.id)
				}
				s.reschedule()
				return
			}
			// uncaught panic in this thread
			s.report("panic", "uncaught panic: "+s.panicString(th.panicVal), s.currentModel(), "sat")
			s.dead = true
			return
		}
		fr := th.top()
		fr.unwinding = true
		if len(fr.defers) > 0 {
			d := fr.defers[len(fr.defers)-1]
			fr.defers = fr.defers[:len(fr.defers)-1]
			s.invoke(th, fr, d.fn, d.args, nil, retUnwind)
			return
		}
		if !th.panicking {
			// recovered: resume at Recover block or return zero values
			fr.unwinding = false
			if fr.fn.Recover != nil {
				fr.prev = fr.block
				fr.block = fr.fn.Recover
				fr.ip = 0
				return
			}
			var ret Value
			res := fr.fn.Signature.Results()
			switch res.Len() {
			case 0:
			case 1:
				ret = zeroValue(res.At(0).Type())
			default:
				ret = zeroValue(res)
			}
			s.doReturn(th, ret)
			return
		}
		// pop and continue in caller
		rk := fr.ret
		th.frames = th.frames[:len(th.frames)-1]
		if rk == retThread || len(th.frames) == 0 {
			th.frames = th.frames[:0]
			continue
		}
		// A panicking deferred call (retDiscard/retUnwind) propagates into the frame that was running defers.
	}
}

func (s *State) isCrashSignal(v Value) bool {
	iv, ok := v.(IfaceV)
	if !ok || iv.T == nil {
		return false
	}
	n, ok := iv.T.(*types.Named)
	return ok && n.Obj().Name() == "vCrashSignal"
}

func (s *State) panicString(v Value) string {
	if iv, ok := v.(IfaceV); ok {
		if sv, ok := iv.V.(StrV); ok {
			return string(sv)
		}
		if iv.T != nil {
			return iv.T.String() + ":" + showValue(iv.V)
		}
	}
	return showValue(v)
}

func (s *State) doRecover(th *Thread) Value {
	// valid only when called from a deferred function invoked by unwinding
	if th.panicking && len(th.frames) >= 2 && th.frames[len(th.frames)-2].unwinding && th.top().ret == retUnwind {
		th.panicking = false
		v := th.panicVal
		th.panicVal = nil
		if v == nil {
			return IfaceV{}
		}
		return v
	}
	return IfaceV{}
}

// ---------- allocation accounting ----------

// countAlloc adds to the allocation monitor; symbolic sizes are checked against
// the budget (flag "allocBudget") as an obligation.
func (s *State) countAlloc(n int64, sym *Expr) bool {
	budget, on := s.flags["allocBudget"]
	if sym != nil {
		if sym.IsConst() {
			n += int64(sym.K)
			sym = nil
		}
	}
	s.counters["allocBytes"] += n
	if !on {
		return true
	}
	if sym != nil {
		if !s.check(Ule(sym, Const(64, uint64(budget))), "alloc-budget", "allocation size not bounded by budget") {
			s.dead = true
			return false
		}
		return true
	}
	if n > budget {
		s.report("alloc-budget", fmt.Sprintf("single allocation of %d bytes exceeds budget %d", n, budget), s.currentModel(), "sat")
	}
	return true
}

var _ = math.MaxInt64
