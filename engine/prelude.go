package main

// Engine side of the harness prelude (v* functions declared in the harness
// packages). The native bodies of these functions are used only in replays.

import (
	"fmt"
	"go/types"

	"golang.org/x/tools/go/ssa"
)

var caseIndex int
var pinned *PinVector

type PinVector struct {
	Scalars map[string]uint64   `json:"scalars"`
	Bytes   map[string][]uint64 `json:"bytes"`
	Choices []int64             `json:"choices"`
	next    int
}

func (s *State) uniqueName(name string) string {
	if _, ok := s.named[name]; !ok {
		return name
	}
	for i := 2; ; i++ {
		n := fmt.Sprintf("%s#%d", name, i)
		if _, ok := s.named[n]; !ok {
			return n
		}
	}
}

func (s *State) freshScalar(name string, w int) *Expr {
	name = s.uniqueName(name)
	var e *Expr
	if pinned != nil {
		e = Const(w, pinned.Scalars[name])
	} else {
		e = Var(name, w)
	}
	s.named[name] = e
	s.namedOrd = append(s.namedOrd, name)
	return e
}

func regPrelude(pkg string) {
	p := pkg + "."
	sc := func(w int) func(s *State, a []Value) Value {
		return func(s *State, a []Value) Value { return s.freshScalar(str(a[0]), w) }
	}
	simple(p+"vBool", sc(0))
	simple(p+"vU8", sc(8))
	simple(p+"vU16", sc(16))
	simple(p+"vU32", sc(32))
	simple(p+"vU64", sc(64))
	simple(p+"vInt", func(s *State, a []Value) Value {
		e := s.freshScalar(str(a[0]), 64)
		lo, hi := s.asExpr(a[1]), s.asExpr(a[2])
		s.assume(And(Sle(lo, e), Sle(e, hi)))
		return e
	})
	simple(p+"vChoice", func(s *State, a []Value) Value {
		n := int(s.cint(a[1]))
		name := str(a[0])
		if pinned != nil {
			v := pinned.Choices[pinned.next]
			pinned.next++
			s.trace = append(s.trace, Choice{name, v})
			return c64(int(v))
		}
		return c64(s.choose(n, name))
	})
	simple(p+"vBytes", func(s *State, a []Value) Value {
		name := s.uniqueName(str(a[0]))
		n := int(s.cint(a[1]))
		cells := make([]Value, n)
		agg := make(AggV, n)
		for i := 0; i < n; i++ {
			var e *Expr
			if pinned != nil {
				e = Const(8, pinned.Bytes[name][i])
			} else {
				e = Var(fmt.Sprintf("%s[%d]", name, i), 8)
			}
			cells[i] = e
			agg[i] = e
		}
		s.named[name] = agg
		s.namedOrd = append(s.namedOrd, name)
		return s.newByteSlice(cells, "vBytes "+name)
	})
	simple(p+"vHugeBytes", func(s *State, a []Value) Value {
		n := s.asExpr(a[0])
		id := s.newObject(nil, "vHugeBytes")
		s.heap[id].Elem = types.Typ[types.Uint8]
		s.heap[id].Virtual = true
		return SliceV{Obj: id, Len: n, Cap: n}
	})
	simple(p+"vKernelDropHandles", func(s *State, a []Value) Value {
		// process death in the kernel model: every open file description is closed, locks released, mappings gone
		if s.kern != nil {
			for fd, o := range s.kern.ofds {
				if !o.closed {
					o.closed = true
					if in := s.kern.inodes[o.ino]; in.lockOFD == fd {
						in.lockOFD = 0
					}
				}
			}
			for id, m := range s.kern.maps {
				if m.live {
					m.live = false
					s.wobj(id).Tag = "unmapped"
				}
			}
		}
		return nil
	})
	simple(p+"vGobFields", func(s *State, a []Value) Value {
		// exported field names and types of the struct behind a pointer: what gob matches by
		iv := a[0].(IfaceV)
		t := iv.T
		if pt, ok := t.Underlying().(*types.Pointer); ok {
			t = pt.Elem()
		}
		st, ok := t.Underlying().(*types.Struct)
		if !ok {
			return StrV("")
		}
		out := ""
		for i := 0; i < st.NumFields(); i++ {
			f := st.Field(i)
			if f.Exported() {
				out += f.Name() + " " + f.Type().String() + ";"
			}
		}
		return StrV(out)
	})
	simple(p+"vLookup32", func(s *State, a []Value) Value {
		// table[idx] for a symbolic 8-bit index as an ite chain (no forking)
		t := a[0].(SliceV)
		cells := s.sliceCells(t)
		idx := s.asExpr(a[1])
		if len(cells) != 256 || idx.W != 8 {
			panic(engineErr("vLookup32: need 256 entries and a byte index"))
		}
		res := cells[255].(*Expr)
		for i := 254; i >= 0; i-- {
			res = Ite(Eq(idx, Const(8, uint64(i))), cells[i].(*Expr), res)
		}
		return res
	})
	simple(p+"vAssume", func(s *State, a []Value) Value {
		s.assume(s.asExpr(a[0]))
		return nil
	})
	simple(p+"vAssert", func(s *State, a []Value) Value {
		c := s.asExpr(a[0])
		msg := str(a[1])
		stats.asserts[msg]++
		if !s.check(c, "assert", msg) {
			s.dead = true
		}
		return nil
	})
	simple(p+"vExpect", func(s *State, a []Value) Value {
		// like vAssert, but the path continues even when the condition cannot hold
		c := s.asExpr(a[0])
		msg := str(a[1])
		stats.asserts[msg]++
		s.check(c, "assert", msg)
		return nil
	})
	simple(p+"vCover", func(s *State, a []Value) Value {
		l := str(a[0])
		if s.covers == nil {
			s.covers = map[string]bool{}
		}
		s.covers[l] = true
		covers[l]++
		return nil
	})
	simple(p+"vObserve", func(s *State, a []Value) Value {
		e := s.asExpr(a[1])
		if e.IsConst() {
			s.obs = append(s.obs, fmt.Sprintf("%s=%d", str(a[0]), e.K))
		} else {
			s.obs = append(s.obs, fmt.Sprintf("%s=<sym>", str(a[0])))
		}
		return nil
	})
	simple(p+"vObserveBytes", func(s *State, a []Value) Value {
		cells := s.bytesOf(a[1])
		if bs, ok := concreteBytes(cells); ok {
			s.obs = append(s.obs, fmt.Sprintf("%s=%x", str(a[0]), bs))
		} else {
			s.obs = append(s.obs, fmt.Sprintf("%s=<sym %d>", str(a[0]), len(cells)))
		}
		return nil
	})
	simple(p+"vRecord", func(s *State, a []Value) Value {
		s.trace = append(s.trace, Choice{"rec:" + str(a[0]), s.cint(a[1])})
		return nil
	})
	simple(p+"vLog", func(s *State, a []Value) Value {
		s.events = append(s.events, str(a[0]))
		return nil
	})
	simple(p+"vAnd", func(s *State, a []Value) Value { return And(s.asExpr(a[0]), s.asExpr(a[1])) })
	simple(p+"vOr", func(s *State, a []Value) Value { return Or(s.asExpr(a[0]), s.asExpr(a[1])) })
	simple(p+"vNot", func(s *State, a []Value) Value { return Not(s.asExpr(a[0])) })
	simple(p+"vImplies", func(s *State, a []Value) Value { return Implies(s.asExpr(a[0]), s.asExpr(a[1])) })
	simple(p+"vIteU64", func(s *State, a []Value) Value { return Ite(s.asExpr(a[0]), s.asExpr(a[1]), s.asExpr(a[2])) })
	simple(p+"vEqBytes", func(s *State, a []Value) Value {
		x, y := a[0].(SliceV), a[1].(SliceV)
		if s.sliceLen(x) != s.sliceLen(y) {
			return False
		}
		return bytesEqual(s.sliceCells(x), s.sliceCells(y))
	})
	simple(p+"vIsNil", func(s *State, a []Value) Value { return Bool(a[0].(SliceV).Obj == 0) })
	simple(p+"vCase", func(s *State, a []Value) Value { return c64(caseIndex) })
	simple(p+"vSymbolic", func(s *State, a []Value) Value { return True })
	simple(p+"vFlag", func(s *State, a []Value) Value {
		s.flags[str(a[0])] = s.cint(a[1])
		return nil
	})
	simple(p+"vCounter", func(s *State, a []Value) Value {
		name := str(a[0])
		if name == "steps" {
			return Const(64, uint64(s.steps))
		}
		if len(name) > 5 && name[:5] == "stub:" {
			// how often a stub was hit so far on any path of this run is not path-specific;
			// per-path counters are kept for the worker model only
			return Const(64, uint64(s.counters[name]))
		}
		return Const(64, uint64(s.counters[name]))
	})
	simple(p+"vCounterAdd", func(s *State, a []Value) Value {
		s.counters[str(a[0])] += s.cint(a[1])
		return nil
	})
	simple(p+"vKill", func(s *State, a []Value) Value {
		// end this path silently (used after a simulated crash was handled)
		s.dead = true
		stats.killed++
		return nil
	})
	// heap provenance
	simple(p+"vTag", func(s *State, a []Value) Value {
		sl := a[0].(SliceV)
		if sl.Obj != 0 {
			s.wobj(sl.Obj).Tag = str(a[1])
		}
		return nil
	})
	simple(p+"vSameObject", func(s *State, a []Value) Value {
		x, y := a[0].(SliceV), a[1].(SliceV)
		return Bool(x.Obj != 0 && x.Obj == y.Obj)
	})
	simple(p+"vReachable", func(s *State, a []Value) Value {
		// is the backing object of slice a[1] reachable from root a[0]?
		target := a[1].(SliceV).Obj
		if target == 0 {
			return False
		}
		return Bool(s.reachable(a[0], target))
	})
	simple(p+"vTagOf", func(s *State, a []Value) Value {
		sl := a[0].(SliceV)
		if sl.Obj == 0 {
			return StrV("")
		}
		return StrV(s.obj(sl.Obj).Tag)
	})
	// threads
	simple(p+"vGo", func(s *State, a []Value) Value {
		s.spawn(a[0], nil)
		return nil
	})
	reg(p+"vJoin", func(s *State, th *Thread, fr *Frame, args []Value, call *ssa.Call, rk retKind) (Value, bool) {
		if !s.schedPoint(th, waitSpec{kind: 5}) {
			return nil, false
		}
		if s.crashPending != nil {
			v := s.crashPending
			s.crashPending = nil
			s.threads = s.threads[:1] // the dead threads are gone
			s.cur = 0
			s.startPanic(th, v)
			return nil, false
		}
		return nil, true
	})
	if pkg == "github.com/akrylysov/pogreb/fs" {
		// the fs package's verif hook is a scheduling point in the engine
		reg(p+"verifYield", func(s *State, th *Thread, fr *Frame, args []Value, call *ssa.Call, rk retKind) (Value, bool) {
			if len(s.threads) == 1 || s.flags["fsYield"] == 0 {
				return nil, true
			}
			if skip := s.flags["fsYieldSkip"]; skip != 0 && s.cint(args[0]) == skip {
				return nil, true
			}
			if !s.schedPoint(th, waitSpec{}) {
				return nil, false
			}
			return nil, true
		})
	}
	reg(p+"vYield", func(s *State, th *Thread, fr *Frame, args []Value, call *ssa.Call, rk retKind) (Value, bool) {
		if len(s.threads) == 1 {
			return nil, true
		}
		if !s.schedPoint(th, waitSpec{}) {
			return nil, false
		}
		return nil, true
	})
	simple(p+"vLiveThreads", func(s *State, a []Value) Value {
		n := 0
		for _, t := range s.threads {
			if !t.done {
				n++
			}
		}
		return c64(n)
	})
	simple(p+"vThreadID", func(s *State, a []Value) Value { return c64(s.thread().id) })
	simple(p+"vHeldLocks", func(s *State, a []Value) Value { return c64(len(s.thread().locks)) })
}

func (s *State) assume(c *Expr) {
	stats.assumes++
	if v, ok := s.known(c); ok {
		if !v {
			s.dead = true
			stats.assumeKilled++
		}
		return
	}
	ok, m := s.feasible(c)
	if !ok {
		s.dead = true
		stats.assumeKilled++
		return
	}
	s.addPCRaw(c, m)
}

// reachable walks the heap graph from a root value.
func (s *State) reachable(root Value, target int) bool {
	seen := map[int]bool{}
	var walk func(v Value) bool
	walkObj := func(id int) bool {
		if id == 0 || seen[id] {
			return false
		}
		if id == target {
			return true
		}
		seen[id] = true
		o := s.obj(id)
		for _, c := range o.Cells {
			if walk(c) {
				return true
			}
		}
		if o.IsMap {
			for _, c := range o.M {
				if walk(c) {
					return true
				}
			}
		}
		return false
	}
	walk = func(v Value) bool {
		switch x := v.(type) {
		case PtrV:
			return walkObj(x.Obj)
		case SliceV:
			return walkObj(x.Obj)
		case MapV:
			return walkObj(x.Obj)
		case IfaceV:
			return walk(x.V)
		case FuncV:
			for _, e := range x.Env {
				if walk(e) {
					return true
				}
			}
		case AggV:
			for _, e := range x {
				if walk(e) {
					return true
				}
			}
		case TupleV:
			for _, e := range x {
				if walk(e) {
					return true
				}
			}
		case NativeV:
			switch n := x.X.(type) {
			case *gobEnc:
				return walk(n.w)
			case *gobDec:
				return walk(n.r)
			}
		}
		return false
	}
	return walk(root)
}

var _ = types.Typ
