package main

import (
	"fmt"
	"go/types"
	"os"
	"sort"
	"strings"

	"golang.org/x/tools/go/ssa"
)

type Object struct {
	Cells []Value
	owner int
	// map objects
	IsMap bool
	M     map[interface{}]Value
	Keys  []interface{} // insertion order
	Note  string
	Elem  types.Type // element type for slices' backing arrays (may be nil)
	// provenance tag (used by ownership harnesses): "", "file", "mmap", ...
	Tag string
	// Virtual objects back slices whose length is symbolic: cells are
	// materialised on demand, everything beyond is the zero value of Elem.
	Virtual bool
	// lockset monitor (C10): Own = allocated by pogreb's own (non-harness) code
	Own  bool
	Mons []*monState // per cell, allocated lazily
	// accesses by the allocating thread up to its next lock release are initialisation
	allocThread, allocEpoch int
}

type monState struct {
	phase   int
	first   int
	shared  bool
	written bool
	cand    []int
	wWhere  string
}

func (o *Object) clone(owner int) *Object {
	n := &Object{owner: owner, IsMap: o.IsMap, Note: o.Note, Elem: o.Elem, Tag: o.Tag, Virtual: o.Virtual, Own: o.Own, allocThread: o.allocThread, allocEpoch: o.allocEpoch}
	if o.Mons != nil {
		n.Mons = append([]*monState(nil), o.Mons...)
	}
	_ = 0
	if o.Cells != nil {
		n.Cells = make([]Value, len(o.Cells), cap(o.Cells))
		copy(n.Cells, o.Cells)
	}
	if o.IsMap {
		n.M = make(map[interface{}]Value, len(o.M))
		for k, v := range o.M {
			n.M[k] = v
		}
		n.Keys = append([]interface{}(nil), o.Keys...)
	}
	return n
}

type retKind int

const (
	retNormal  retKind = iota // store result in caller's register, advance caller ip
	retDiscard                // deferred call from RunDefers: discard, stay on instruction
	retUnwind                 // deferred call during panic unwinding
	retThread                 // bottom frame of a thread
)

type Deferred struct {
	fn   Value
	args []Value
	// for invoke-mode defers
	method *types.Func
	instr  *ssa.Defer
}

type Frame struct {
	fn        *ssa.Function
	info      *fnInfo
	regs      []Value
	env       []Value
	block     *ssa.BasicBlock
	prev      *ssa.BasicBlock
	ip        int
	defers    []Deferred
	ret       retKind
	post      func(st *State, ret Value) Value
	unwinding bool // this frame is being unwound by a panic
	iters     map[int]int
}

func (f *Frame) clone() *Frame {
	n := *f
	n.regs = make([]Value, len(f.regs))
	copy(n.regs, f.regs)
	if len(f.defers) > 0 {
		n.defers = append([]Deferred(nil), f.defers...)
	}
	if f.iters != nil {
		n.iters = make(map[int]int, len(f.iters))
		for k, v := range f.iters {
			n.iters[k] = v
		}
	}
	return &n
}

type Thread struct {
	id        int
	frames    []*Frame
	done      bool
	panicking bool
	panicVal  Value
	granted   bool // scheduler has picked this thread at its current sched point
	name      string
	locks     []int // object ids (mutex cell identity) currently held: encoded obj<<20|off
	nlock     int
	epoch     int // incremented at every lock release
	leakReported bool
}

func (t *Thread) clone() *Thread {
	n := *t
	n.frames = make([]*Frame, len(t.frames))
	for i, f := range t.frames {
		n.frames[i] = f.clone()
	}
	n.locks = append([]int(nil), t.locks...)
	return &n
}

func (t *Thread) top() *Frame { return t.frames[len(t.frames)-1] }

type Choice struct {
	Name string
	Val  int64
}

type State struct {
	id      int
	heap    []*Object
	globals map[*ssa.Global]int
	threads []*Thread
	cur     int
	pc      []*Expr
	pcSet   map[*Expr]bool
	model   Model
	// decisions
	forced       []int // choices to replay at re-execution of current instruction
	instrChoices []int
	trace        []Choice // vChoice / schedule decisions along the path
	// bookkeeping
	steps    int
	depth    int
	obs      []string
	named    map[string]Value // named symbolic inputs (for replay vectors)
	namedOrd []string
	counters map[string]int64 // harness/engine monitors (allocBytes, fsCalls, ...)
	flags    map[string]int64 // harness-set engine options
	dead     bool
	finished bool
	events   []string
	waitMap  map[int]waitSpec
	threadSeq int
	phase    int
	exiting  *Thread // transient: thread whose exit is being scheduled
	crashPending Value // crash signal raised in a spawned thread, re-raised by vJoin
	kern     *Kernel
	covers   map[string]bool
}

var stateSeq = 0

func newState() *State {
	stateSeq++
	return &State{id: stateSeq, heap: []*Object{nil}, globals: map[*ssa.Global]int{}, pcSet: map[*Expr]bool{},
		named: map[string]Value{}, counters: map[string]int64{}, flags: map[string]int64{}}
}

func (s *State) clone() *State {
	stateSeq++
	n := &State{id: stateSeq, cur: s.cur, steps: s.steps, depth: s.depth + 1}
	// retire the parent's ownership: give parent a new id too
	stateSeq++
	s.id = stateSeq
	n.heap = make([]*Object, len(s.heap), len(s.heap)+64)
	copy(n.heap, s.heap)
	n.globals = make(map[*ssa.Global]int, len(s.globals))
	for k, v := range s.globals {
		n.globals[k] = v
	}
	n.threads = make([]*Thread, len(s.threads))
	for i, t := range s.threads {
		n.threads[i] = t.clone()
	}
	n.pc = append([]*Expr(nil), s.pc...)
	n.pcSet = make(map[*Expr]bool, len(s.pcSet))
	for k := range s.pcSet {
		n.pcSet[k] = true
	}
	n.model = s.model
	n.trace = append([]Choice(nil), s.trace...)
	n.obs = append([]string(nil), s.obs...)
	n.events = append([]string(nil), s.events...)
	n.named = make(map[string]Value, len(s.named))
	for k, v := range s.named {
		n.named[k] = v
	}
	n.namedOrd = append([]string(nil), s.namedOrd...)
	n.counters = make(map[string]int64, len(s.counters))
	for k, v := range s.counters {
		n.counters[k] = v
	}
	n.flags = make(map[string]int64, len(s.flags))
	for k, v := range s.flags {
		n.flags[k] = v
	}
	n.instrChoices = append([]int(nil), s.instrChoices...)
	n.threadSeq = s.threadSeq
	n.phase = s.phase
	n.crashPending = s.crashPending
	if s.kern != nil {
		n.kern = s.kern.clone()
	}
	if s.waitMap != nil {
		n.waitMap = make(map[int]waitSpec, len(s.waitMap))
		for k, v := range s.waitMap {
			n.waitMap[k] = v
		}
	}
	if s.covers != nil {
		n.covers = make(map[string]bool, len(s.covers))
		for k := range s.covers {
			n.covers[k] = true
		}
	}
	return n
}

func (s *State) thread() *Thread { return s.threads[s.cur] }
func (s *State) frame() *Frame   { return s.thread().top() }

// ---------- heap ----------

func (s *State) newObject(cells []Value, note string) int {
	o := &Object{Cells: cells, owner: s.id, Note: note}
	if len(s.threads) > 0 && s.cur < len(s.threads) {
		o.allocThread, o.allocEpoch = s.threads[s.cur].id+1, s.threads[s.cur].epoch
	}
	s.heap = append(s.heap, o)
	return len(s.heap) - 1
}

func (s *State) allocType(t types.Type, note string) int {
	id := s.newObject(zeroLeaves(t, nil), note)
	return id
}

func (s *State) obj(id int) *Object {
	if id <= 0 || id >= len(s.heap) {
		panic(engineErr(fmt.Sprintf("bad object id %d", id)))
	}
	return s.heap[id]
}

func (s *State) wobj(id int) *Object {
	o := s.obj(id)
	if o.owner != s.id {
		o = o.clone(s.id)
		s.heap[id] = o
	}
	return o
}

// materialize extends a virtual object to at least n cells.
func (s *State) materialize(id int, n int) *Object {
	if n > 1<<20 {
		panic(engineErr(fmt.Sprintf("virtual object: materialising %d cells", n)))
	}
	o := s.wobj(id)
	zl := []Value{Const(8, 0)}
	if o.Elem != nil {
		zl = zeroLeaves(o.Elem, nil)
	}
	for len(o.Cells) < n {
		o.Cells = append(o.Cells, zl...)
	}
	return o
}

func (s *State) loadLeaves(p PtrV, n int) []Value {
	if p.Obj == 0 {
		panic(engineErr("load through nil pointer (unchecked)"))
	}
	o := s.obj(p.Obj)
	if o.Tag == "unmapped" {
		s.report("fault", "read of memory-mapped file memory after it was unmapped", s.currentModel(), "sat")
	}
	if o.Virtual && p.Off >= 0 && p.Off+n > len(o.Cells) {
		o = s.materialize(p.Obj, p.Off+n)
	}
	if p.Off < 0 || p.Off+n > len(o.Cells) {
		panic(engineErr(fmt.Sprintf("load out of object bounds: o%d(%s) off %d n %d len %d", p.Obj, o.Note, p.Off, n, len(o.Cells))))
	}
	return o.Cells[p.Off : p.Off+n]
}

func (s *State) load(p PtrV, t types.Type) Value {
	n := layoutOf(t).n
	ls := s.loadLeaves(p, n)
	if isAgg(t) {
		cp := make(AggV, n)
		copy(cp, ls)
		return cp
	}
	if n != 1 {
		panic(engineErr("load: scalar with n!=1"))
	}
	return ls[0]
}

func (s *State) store(p PtrV, v Value) {
	if p.Obj == 0 {
		panic(engineErr("store through nil pointer (unchecked)"))
	}
	o := s.wobj(p.Obj)
	ls := toLeaves(v)
	if o.Virtual && p.Off >= 0 && p.Off+len(ls) > len(o.Cells) {
		o = s.materialize(p.Obj, p.Off+len(ls))
	}
	if p.Off < 0 || p.Off+len(ls) > len(o.Cells) {
		panic(engineErr(fmt.Sprintf("store out of object bounds: o%d(%s) off %d n %d len %d", p.Obj, o.Note, p.Off, len(ls), len(o.Cells))))
	}
	copy(o.Cells[p.Off:], ls)
}

// ---------- path condition ----------

func (s *State) addPC(c *Expr) {
	if c.IsTrue() || s.pcSet[c] {
		return
	}
	// split conjunctions so that literals are individually recognisable
	if c.Op == OpAnd {
		s.addPC(c.A)
		s.addPC(c.B)
		return
	}
	s.pc = append(s.pc, c)
	s.pcSet[c] = true
	if s.model != nil {
		if v, ok := evalExpr(c, s.model, map[*Expr]uint64{}); !ok || v != 1 {
			s.model = nil
		}
	}
}

// implied reports whether c is syntactically known under the pc.
func (s *State) known(c *Expr) (val bool, ok bool) {
	if c.IsConst() {
		return c.K == 1, true
	}
	if s.pcSet[c] {
		return true, true
	}
	if s.pcSet[Not(c)] {
		return false, true
	}
	return false, false
}

// coreCache: for a literal L, sets of constraints C such that C ∧ L is unsat.
var coreCache = map[*Expr][][]*Expr{}

func (s *State) coreHit(lit *Expr) bool {
	for _, core := range coreCache[lit] {
		ok := true
		for _, c := range core {
			if !s.pcSet[c] {
				ok = false
				break
			}
		}
		if ok {
			theSolver.CoreHit++
			return true
		}
	}
	return false
}

func rememberCore(lit *Expr) {
	core := theSolver.LastCore
	if core == nil {
		return
	}
	var rest []*Expr
	for _, c := range core {
		if c != lit {
			rest = append(rest, c)
		}
	}
	if len(coreCache[lit]) < 64 {
		coreCache[lit] = append(coreCache[lit], rest)
	}
}

// feasible asks whether pc ∧ c is satisfiable. Unknown counts as feasible.
func (s *State) feasible(c *Expr) (bool, Model) {
	if c.IsFalse() {
		return false, nil
	}
	if s.coreHit(c) {
		return false, nil
	}
	theSolver.WantCore = true
	r, m := theSolver.Check(append(append([]*Expr(nil), s.pc...), c), true)
	theSolver.WantCore = false
	if r == Unsat {
		rememberCore(c)
	}
	stats.feasQueries++
	if r == Unknown {
		stats.feasUnknown++
	}
	return r != Unsat, m
}

// branch decides a symbolic condition, forking a sibling state (which will
// re-execute the current instruction) when both outcomes are feasible.
func (s *State) branch(c *Expr) bool {
	if v, ok := s.known(c); ok {
		return v
	}
	// model guided
	side, haveSide := false, false
	if s.model != nil {
		if v, ok := evalExpr(c, s.model, map[*Expr]uint64{}); ok {
			side, haveSide = v == 1, true
		}
	}
	var mT, mF Model
	var fT, fF bool
	if haveSide {
		if side {
			fT, mT = true, s.model
			fF, mF = s.feasible(Not(c))
		} else {
			fF, mF = true, s.model
			fT, mT = s.feasible(c)
		}
	} else {
		fT, mT = s.feasible(c)
		if !fT {
			fF, mF = true, nil // pc is satisfiable by invariant
		} else {
			fF, mF = s.feasible(Not(c))
		}
		side = fT
	}
	if fT && fF {
		sib := s.clone()
		if side {
			sib.addPCRaw(Not(c), mF)
			s.addPCRaw(c, mT)
		} else {
			sib.addPCRaw(c, mT)
			s.addPCRaw(Not(c), mF)
		}
		sib.forced = append([]int(nil), s.instrChoices...)
		pushState(sib)
		stats.forks++
		return side
	}
	if fT {
		s.addPCRaw(c, mT)
		return true
	}
	s.addPCRaw(Not(c), mF)
	return false
}

func (s *State) addPCRaw(c *Expr, m Model) {
	if c.IsTrue() || s.pcSet[c] {
		return
	}
	s.pc = append(s.pc, c)
	s.pcSet[c] = true
	if c.Op == OpAnd {
		// also remember conjuncts as known literals
		s.markKnown(c)
	}
	s.model = m
}

func (s *State) markKnown(c *Expr) {
	if c.Op == OpAnd {
		s.markKnown(c.A)
		s.markKnown(c.B)
		return
	}
	s.pcSet[c] = true
}

// choose makes an n-way nondeterministic choice, forking siblings.
func (s *State) choose(n int, label string) int {
	if n <= 0 {
		panic(engineErr("choose(0)"))
	}
	var pick int
	if len(s.forced) > 0 {
		pick = s.forced[0]
		s.forced = s.forced[1:]
	} else {
		pick = 0
		for alt := n - 1; alt >= 1; alt-- {
			sib := s.clone()
			sib.forced = append(append([]int(nil), s.instrChoices...), alt)
			pushState(sib)
			stats.forks++
		}
	}
	s.instrChoices = append(s.instrChoices, pick)
	if label != "" {
		s.trace = append(s.trace, Choice{label, int64(pick)})
	}
	return pick
}

// concretize returns a concrete value for e, forking over the feasible values.
func (s *State) concretize(e *Expr, what string) uint64 {
	if e.IsConst() {
		return e.K
	}
	var v uint64
	got := false
	if s.model != nil {
		if x, ok := evalExpr(e, s.model, map[*Expr]uint64{}); ok {
			v, got = x, true
		}
	}
	if !got {
		r, m := theSolver.Check(s.pc, true)
		stats.feasQueries++
		if r != Sat {
			panic(engineErr("concretize: pc not sat (" + r.String() + ")"))
		}
		s.model = m
		x, ok := evalExpr(e, m, map[*Expr]uint64{})
		if !ok {
			// e mentions leaves not in pc: free -> extend model with zeros
			for _, l := range leaves([]*Expr{e}) {
				if _, has := m[l]; !has {
					m[l] = 0
				}
			}
			x, ok = evalExpr(e, m, map[*Expr]uint64{})
			if !ok {
				panic(engineErr("concretize: cannot evaluate " + e.String()))
			}
		}
		v = x
	}
	eq := Eq(e, Const(e.W, v))
	stats.concretizations++
	if s.branch(eq) {
		return v
	}
	// the sibling took e==v (model side is always ours, so this is not reached
	// unless the model was stale); retry
	return s.concretize(e, what)
}

// ---------- obligations ----------

type Violation struct {
	Kind    string // assert | panic | deadlock | unwind ...
	Msg     string
	Where   string
	Model   map[string]uint64
	Trace   []Choice
	Inputs  map[string]interface{}
	Obs     []string
	Events  []string
	Verdict string // sat | unknown
	Hashes  []HashTarget
	Seed    uint64
	Seeds   []uint64
	Case    int
}

type HashTarget struct {
	Key []uint64
	H   uint64
}

// check is an obligation: cond must hold on this path. Returns false when the
// path cannot continue (cond is unsatisfiable under pc).
func (s *State) check(cond *Expr, kind, msg string) bool {
	stats.obligations++
	if v, ok := s.known(cond); ok {
		if v {
			stats.dischargedConst++
			return true
		}
		s.report(kind, msg, s.currentModel(), "sat")
		return false
	}
	neg := Not(cond)
	if s.coreHit(neg) {
		stats.dischargedSolver++
		stats.dischargedCore++
		s.markKnown(cond)
		return true
	}
	// model shortcut for detecting violations quickly is not sound for "unsat";
	// always ask the solver.
	theSolver.WantCore = true
	r, m := theSolver.Check(append(append([]*Expr(nil), s.pc...), neg), true)
	theSolver.WantCore = false
	if r == Unsat && crossCheck != nil {
		// second solver on every obligation the first one discharged
		r2, _ := crossCheck.Check(append(append([]*Expr(nil), s.pc...), neg), false)
		crossStats[r2.String()]++
		if r2 != Unsat {
			crossStats["disagree"]++
			r = Unknown
			theSolver.LastCore = nil
		}
	}
	if r == Unsat {
		rememberCore(neg)
	}
	stats.oblQueries++
	switch r {
	case Unsat:
		stats.dischargedSolver++
		s.markKnown(cond)
		return true
	case Sat:
		s.reportWith(kind, msg, m, "sat")
	default:
		stats.undischarged++
		s.reportWith(kind+"-unknown", msg, nil, "unknown")
	}
	// continue on the side where cond holds, if feasible
	ok, mm := s.feasible(cond)
	if !ok {
		return false
	}
	s.addPCRaw(cond, mm)
	return true
}

func (s *State) currentModel() Model {
	if s.model != nil {
		return s.model
	}
	r, m := theSolver.Check(s.pc, true)
	if r == Sat {
		s.model = m
		return m
	}
	return nil
}

func (s *State) report(kind, msg string, m Model, verdict string) { s.reportWith(kind, msg, m, verdict) }

func (s *State) where() string {
	var sb strings.Builder
	th := s.thread()
	for i := len(th.frames) - 1; i >= 0 && i >= len(th.frames)-6; i-- {
		f := th.frames[i]
		pos := ""
		if f.block != nil && f.ip < len(f.block.Instrs) {
			p := prog.Fset.Position(f.block.Instrs[f.ip].Pos())
			if p.IsValid() {
				pos = fmt.Sprintf("%s:%d", shortFile(p.Filename), p.Line)
			}
		}
		fmt.Fprintf(&sb, "%s(%s) < ", f.fn.String(), pos)
	}
	return sb.String()
}

func shortFile(f string) string {
	if i := strings.LastIndex(f, "/"); i >= 0 {
		return f[i+1:]
	}
	return f
}

var violClassCount = map[string]int{}

func (s *State) reportWith(kind, msg string, m Model, verdict string) {
	cls := kind + "|" + msg
	violClassCount[cls]++
	if violClassCount[cls] > 20 {
		return // keep a bounded number of representatives per class
	}
	v := Violation{Case: caseIndex, Kind: kind, Msg: msg, Where: s.where(), Trace: append([]Choice(nil), s.trace...), Verdict: verdict,
		Obs: append([]string(nil), s.obs...), Events: append([]string(nil), s.events...)}
	if m != nil {
		v.Model = map[string]uint64{}
		for e, x := range m {
			if e.Op == OpVar {
				v.Model[e.Name] = x
			}
		}
		v.Inputs = s.inputsUnder(m)
		v.Hashes, v.Seed = hashTargets(m)
		v.Seeds = append([]uint64(nil), lastSeeds...)
	}
	violations = append(violations, v)
	if verbose {
		fmt.Fprintf(os.Stderr, "VIOLATION-CANDIDATE kind=%s msg=%s at %s trace=%v\n", kind, msg, v.Where, v.Trace)
	}
}

// inputsUnder renders the named symbolic inputs under a model.
func (s *State) inputsUnder(m Model) map[string]interface{} {
	out := map[string]interface{}{}
	memo := map[*Expr]uint64{}
	ev := func(e *Expr) uint64 {
		if x, ok := evalExpr(e, m, memo); ok {
			return x
		}
		// unconstrained leaves default to 0
		for _, l := range leaves([]*Expr{e}) {
			if _, has := m[l]; !has {
				m[l] = 0
			}
		}
		x, _ := evalExpr(e, m, map[*Expr]uint64{})
		return x
	}
	for _, name := range s.namedOrd {
		switch v := s.named[name].(type) {
		case *Expr:
			out[name] = ev(v)
		case AggV:
			var bs []uint64
			for _, c := range v {
				bs = append(bs, ev(c.(*Expr)))
			}
			out[name] = bs
		}
	}
	return out
}

func sortedKeys(m map[string]bool) []string {
	var ks []string
	for k := range m {
		ks = append(ks, k)
	}
	sort.Strings(ks)
	return ks
}

type engineErr string

func (e engineErr) Error() string { return string(e) }

// ---------- lockset monitor ----------

// monitor records an access of the current thread to cells [off, off+n) of object id.
func (s *State) monitor(fr *Frame, id, off, n int, write bool) {
	if s.flags["lockset"] == 0 || id == 0 {
		return
	}
	live := 0
	for _, t := range s.threads {
		if !t.done {
			live++
		}
	}
	if live < 2 || fr.info.harness {
		return
	}
	o := s.heap[id]
	if !o.Own {
		return
	}
	th := s.thread()
	if o.allocThread == th.id+1 && o.allocEpoch == th.epoch {
		return // initialisation before the object can have been published
	}
	var L []int
	for _, l := range th.locks {
		if l > 0 {
			L = append(L, l)
		} else if !write {
			L = append(L, -l)
		}
	}
	if n > 64 {
		n = 64 // large copies: sample the first cells
	}
	var wo *Object
	for c := off; c < off+n; c++ {
		var m *monState
		if c < len(o.Mons) {
			m = o.Mons[c]
		}
		var nm monState
		if m == nil || m.phase != s.phase {
			nm = monState{phase: s.phase, first: th.id, written: write, cand: L}
		} else {
			nm = *m
			var cc []int
			for _, x := range nm.cand {
				for _, y := range L {
					if x == y {
						cc = append(cc, x)
					}
				}
			}
			nm.cand = cc
			if write {
				nm.written = true
			}
			if th.id != nm.first {
				nm.shared = true
			}
		}
		if write && nm.wWhere == "" {
			nm.wWhere = s.where()
		}
		if nm.shared && nm.written && len(nm.cand) == 0 && (m == nil || !(m.shared && m.written && len(m.cand) == 0)) {
			w := nm.wWhere
			if k := strings.Index(w, " < "); k > 0 {
				w = w[:k]
			}
			s.reportWith("race", fmt.Sprintf("lockset: cell %d of object %q (allocated by pogreb) is accessed by several threads, at least once for writing, with no common lock; a write is at %s", c, o.Note, w), s.currentModel(), "sat")
		}
		if wo == nil {
			wo = s.wobj(id)
			o = wo
		}
		for len(wo.Mons) <= c {
			wo.Mons = append(wo.Mons, nil)
		}
		wo.Mons[c] = &nm
	}
}

var lastSeeds []uint64

// hashTargets lists, for every application of the uninterpreted hash whose
// value the model fixes, the argument bytes and the hash value (replays realise
// them with real keys).
func hashTargets(m Model) ([]HashTarget, uint64) {
	var out []HashTarget
	memo := map[*Expr]uint64{}
	for _, a := range hashOrder {
		h, ok := m[a.h]
		if !ok {
			continue
		}
		ht := HashTarget{H: h}
		good := true
		for _, c := range a.cells {
			x, ok := evalExpr(c.(*Expr), m, memo)
			if !ok {
				good = false
				break
			}
			ht.Key = append(ht.Key, x)
		}
		if good {
			out = append(out, ht)
		}
	}
	var seed uint64
	if sd, ok := m[Var("hashseed", 32)]; ok {
		seed = sd
	}
	lastSeeds = []uint64{seed}
	for k := 2; k < 8; k++ {
		if sd, ok := m[Var(fmt.Sprintf("hashseed#%d", k), 32)]; ok {
			for len(lastSeeds) < k {
				lastSeeds = append(lastSeeds, seed)
			}
			lastSeeds[k-1] = sd
		}
	}
	return out, seed
}
