package main

// Minimal model of what pogreb's background worker needs: context.WithCancel,
// time.NewTicker, and select over {ctx.Done(), ticker channels, nil channels}.
// A ticker "may fire at any scheduling point" while the tick budget
// (flag tickBudget) lasts; ctx.Done() is ready after cancel.

import (
	"go/types"

	"golang.org/x/tools/go/ssa"
)

type kChan struct {
	kind string // "ctxdone" | "ticker"
	flag PtrV   // ctxdone: cell that becomes 1 on cancel
}

type kCtx struct{ flag PtrV }

// ClosureNativeV is a native function value with bound arguments.
type ClosureNativeV struct {
	Name string
	Env  []Value
}

var ctxNativeT = types.NewNamed(types.NewTypeName(0, nil, "nativeContext", nil), types.NewStruct(nil, nil), nil)

func regWorker() {
	simple("context.Background", func(s *State, a []Value) Value {
		return IfaceV{T: ctxNativeT, V: NativeV{&kCtx{}}}
	})
	simple("context.WithCancel", func(s *State, a []Value) Value {
		stats.stubs["context.WithCancel:model"]++
		flag := PtrV{Obj: s.newObject([]Value{Const(64, 0)}, "ctx cancelled flag")}
		ctx := IfaceV{T: ctxNativeT, V: NativeV{&kCtx{flag: flag}}}
		return TupleV{ctx, ClosureNativeV{Name: "ctx.cancel", Env: []Value{flag}}}
	})
	simple("ctx.cancel", func(s *State, a []Value) Value {
		s.store(a[0].(PtrV), Const(64, 1))
		return nil
	})
	simple("native:*main.kCtx.Done", func(s *State, a []Value) Value {
		c := a[0].(NativeV).X.(*kCtx)
		if c.flag.Obj == 0 {
			return NativeV{nil}
		}
		return NativeV{&kChan{kind: "ctxdone", flag: c.flag}}
	})
	simple("time.NewTicker", func(s *State, a []Value) Value {
		stats.stubs["time.NewTicker:model"]++
		s.counters["stub:time.NewTicker:model"]++
		id := s.allocType(tickerT, "time.Ticker")
		// field C is the first field
		s.heap[id].Cells[0] = NativeV{&kChan{kind: "ticker"}}
		return PtrV{Obj: id}
	})
	simple("(*time.Ticker).Stop", func(s *State, a []Value) Value { return nil })
}

var tickerT types.Type

func (s *State) chanReady(v Value) bool {
	nv, ok := v.(NativeV)
	if !ok || nv.X == nil {
		return false
	}
	c, ok := nv.X.(*kChan)
	if !ok {
		return false
	}
	switch c.kind {
	case "ctxdone":
		return s.cellInt(c.flag, 0) != 0
	case "ticker":
		return s.flags["tickBudget"] > 0
	}
	return false
}

// execSelect implements a blocking select over receive cases.
func (s *State) execSelect(th *Thread, fr *Frame, x *ssa.Select) {
	var chans []Value
	for _, st := range x.States {
		if st.Dir != types.RecvOnly {
			panic(engineErr("select: send cases are not modelled"))
		}
		chans = append(chans, s.get(fr, st.Chan))
	}
	if !x.Blocking {
		panic(engineErr("select with default is not modelled"))
	}
	if !s.schedPoint(th, waitSpec{kind: 6, chans: chans}) {
		return
	}
	var ready []int
	for i, c := range chans {
		if s.chanReady(c) {
			ready = append(ready, i)
		}
	}
	if len(ready) == 0 {
		panic(engineErr("select resumed with no ready case"))
	}
	pick := ready[0]
	if len(ready) > 1 {
		pick = ready[s.choose(len(ready), "select")]
	}
	if c := chans[pick].(NativeV).X.(*kChan); c.kind == "ticker" {
		s.flags["tickBudget"]--
	}
	res := TupleV{Const(64, uint64(pick)), True}
	for _, st := range x.States {
		res = append(res, zeroValue(st.Chan.Type().Underlying().(*types.Chan).Elem()))
	}
	s.set(fr, x, res)
	s.next(fr)
}
