package main

// Kernel model: a hand-written model of the POSIX/Linux file API behind os.*
// and syscall.* (used by the fs.OS / fs.OSMMap legs: C13, C17). Trusted;
// counterexamples are replayed on the real kernel.
//
// directory: name -> inode; inode = (bytes, link count, flock holder);
// open file description = (inode, offset); unlink keeps the inode alive while
// descriptions exist; flock(LOCK_EX|LOCK_NB) is per open file description and
// released when it is closed; mmap(PROT_READ, MAP_SHARED) gives a view whose
// byte i is the inode's byte i (zero beyond EOF inside the mapping).

import (
	"fmt"
	"go/types"
	"sort"
	"strings"

	"golang.org/x/tools/go/ssa"
)

// dirYield: with the flag set, ReadDir and DirEntry.Info (lstat) are scheduling
// points, so that a directory scan can be overtaken by another thread's unlink.
func regD(name string, f func(s *State, a []Value) Value) {
	reg(name, func(s *State, th *Thread, fr *Frame, args []Value, call *ssa.Call, rk retKind) (Value, bool) {
		if s.flags["dirYield"] != 0 && len(s.threads) > 1 {
			if !s.schedPoint(th, waitSpec{}) {
				return nil, false
			}
		}
		v := f(s, args)
		if s.dead {
			return nil, false
		}
		return v, true
	})
}

type kInode struct {
	id      int
	data    []Value
	nlink   int
	lockOFD int
	isLock  bool // created under the name "lock"
}

type kOFD struct {
	ino    int
	off    int64
	closed bool
	rdonly bool
}

type kMap struct {
	ino    int
	length int
	live   bool
}

type Kernel struct {
	dir     map[string]int
	inodes  map[int]*kInode
	ofds    map[int]*kOFD
	files   map[int]int // heap object of *os.File -> fd
	maps    map[int]*kMap
	nextIno int
	nextFD  int
}

func newKernel() *Kernel {
	return &Kernel{dir: map[string]int{}, inodes: map[int]*kInode{}, ofds: map[int]*kOFD{}, files: map[int]int{}, maps: map[int]*kMap{}, nextIno: 1, nextFD: 3}
}

func (k *Kernel) clone() *Kernel {
	n := &Kernel{dir: map[string]int{}, inodes: map[int]*kInode{}, ofds: map[int]*kOFD{}, files: map[int]int{}, maps: map[int]*kMap{}, nextIno: k.nextIno, nextFD: k.nextFD}
	for a, b := range k.dir {
		n.dir[a] = b
	}
	for a, b := range k.inodes {
		c := *b
		c.data = append([]Value(nil), b.data...)
		n.inodes[a] = &c
	}
	for a, b := range k.ofds {
		c := *b
		n.ofds[a] = &c
	}
	for a, b := range k.files {
		n.files[a] = b
	}
	for a, b := range k.maps {
		c := *b
		n.maps[a] = &c
	}
	return n
}

func (s *State) k() *Kernel {
	if s.kern == nil {
		s.kern = newKernel()
	}
	return s.kern
}

type kFileInfo struct {
	name string
	ino  int
	size int64
}

type kDirEntry struct {
	name string
	path string
	ino  int
	size int64
}

var fileInfoT = types.NewNamed(types.NewTypeName(0, nil, "kernelFileInfo", nil), types.NewStruct(nil, nil), nil)
var dirEntryT = types.NewNamed(types.NewTypeName(0, nil, "kernelDirEntry", nil), types.NewStruct(nil, nil), nil)

func errNotExist() Value { return nativeErr("io/fs.ErrNotExist") }
func errClosed() Value   { return nativeErr("io/fs.ErrClosed") }
func nilErr() Value      { return IfaceV{} }

var osFileT types.Type // os.File

func (s *State) kFile(v Value) (*kOFD, int) {
	p, ok := v.(PtrV)
	if !ok || p.Obj == 0 {
		return nil, -1
	}
	fd, ok := s.k().files[p.Obj]
	if !ok {
		return nil, -1
	}
	o := s.k().ofds[fd]
	if o == nil || o.closed {
		return nil, fd
	}
	return o, fd
}

func cleanPath(p string) string {
	p = strings.TrimPrefix(p, "./")
	for strings.Contains(p, "//") {
		p = strings.ReplaceAll(p, "//", "/")
	}
	return strings.TrimSuffix(p, "/")
}

const (
	oRDONLY = 0
	oRDWR   = 2
	oCREATE = 0x40
	oTRUNC  = 0x200
	oEXCL   = 0x80
)

func isLockPath(name string) bool {
	return name == "lock" || strings.HasSuffix(name, "/lock")
}

// regY registers a system call that is a scheduling point when the flag
// "lockYield" is set, several threads exist and the call concerns the lock file
// (by path or by descriptor): the interleavings of Open's and Close's lock-file
// steps are then explored at system-call granularity in DB-level harnesses.
func regY(name string, onLock func(s *State, a []Value) bool, f func(s *State, a []Value) Value) {
	reg(name, func(s *State, th *Thread, fr *Frame, args []Value, call *ssa.Call, rk retKind) (Value, bool) {
		if s.flags["lockYield"] != 0 && len(s.threads) > 1 && onLock(s, args) {
			if !s.schedPoint(th, waitSpec{}) {
				return nil, false
			}
		}
		v := f(s, args)
		if s.dead {
			return nil, false
		}
		return v, true
	})
}

func regKernel() {
	stubName := func(n string) { stats.stubs["kernel-model:"+n]++ }
	pathIsLock := func(s *State, a []Value) bool { return isLockPath(cleanPath(str(a[0]))) }
	fileIsLock := func(s *State, a []Value) bool {
		o, _ := s.kFile(a[0])
		return o != nil && s.k().inodes[o.ino].isLock
	}
	fdIsLock := func(s *State, a []Value) bool {
		o := s.k().ofds[int(s.cint(a[0]))]
		return o != nil && s.k().inodes[o.ino].isLock
	}
	regY("os.Stat", pathIsLock, func(s *State, a []Value) Value {
		stubName("stat")
		name := cleanPath(str(a[0]))
		ino, ok := s.k().dir[name]
		if !ok {
			return TupleV{IfaceV{}, errNotExist()}
		}
		in := s.k().inodes[ino]
		return TupleV{IfaceV{T: fileInfoT, V: NativeV{&kFileInfo{name: name, ino: ino, size: int64(len(in.data))}}}, nilErr()}
	})
	regY("os.OpenFile", pathIsLock, func(s *State, a []Value) Value {
		stubName("open")
		name := cleanPath(str(a[0]))
		flag := int(s.cint(a[1]))
		k := s.k()
		ino, ok := k.dir[name]
		if ok && flag&oCREATE != 0 && flag&oEXCL != 0 {
			return TupleV{PtrV{}, nativeErr("io/fs.ErrExist")}
		}
		if !ok {
			if flag&oCREATE == 0 {
				return TupleV{PtrV{}, errNotExist()}
			}
			ino = k.nextIno
			k.nextIno++
			k.inodes[ino] = &kInode{id: ino, nlink: 1, isLock: isLockPath(name)}
			k.dir[name] = ino
		} else if flag&oTRUNC != 0 {
			k.inodes[ino].data = nil
		}
		fd := k.nextFD
		k.nextFD++
		k.ofds[fd] = &kOFD{ino: ino, rdonly: flag&3 == oRDONLY}
		obj := s.allocType(osFileT, "os.File "+name)
		k.files[obj] = fd
		return TupleV{PtrV{Obj: obj}, nilErr()}
	})
	simple("(*os.File).Fd", func(s *State, a []Value) Value {
		_, fd := s.kFile(a[0])
		return Const(64, uint64(fd))
	})
	regY("(*os.File).Close", fileIsLock, func(s *State, a []Value) Value {
		stubName("close")
		o, fd := s.kFile(a[0])
		if o == nil {
			return errClosed()
		}
		k := s.k()
		o.closed = true
		in := k.inodes[o.ino]
		if in.lockOFD == fd {
			in.lockOFD = 0
		}
		return nilErr()
	})
	regY("syscall.Flock", fdIsLock, func(s *State, a []Value) Value {
		stubName("flock")
		fd := int(s.cint(a[0]))
		k := s.k()
		o := k.ofds[fd]
		if o == nil || o.closed {
			return IfaceV{T: errnoT, V: Const(64, 9)} // EBADF
		}
		in := k.inodes[o.ino]
		if in.lockOFD != 0 && in.lockOFD != fd {
			return IfaceV{T: errnoT, V: Const(64, 11)} // EWOULDBLOCK
		}
		in.lockOFD = fd
		return nilErr()
	})
	regY("os.Remove", pathIsLock, func(s *State, a []Value) Value {
		stubName("unlink")
		name := cleanPath(str(a[0]))
		k := s.k()
		ino, ok := k.dir[name]
		if !ok {
			return errNotExist()
		}
		delete(k.dir, name)
		k.inodes[ino].nlink--
		return nilErr()
	})
	simple("os.Rename", func(s *State, a []Value) Value {
		stubName("rename")
		o, n := cleanPath(str(a[0])), cleanPath(str(a[1]))
		k := s.k()
		ino, ok := k.dir[o]
		if !ok {
			return errNotExist()
		}
		if old, ok := k.dir[n]; ok {
			k.inodes[old].nlink--
		}
		delete(k.dir, o)
		k.dir[n] = ino
		return nilErr()
	})
	simple("os.MkdirAll", func(s *State, a []Value) Value { return nilErr() })
	regD("os.ReadDir", func(s *State, a []Value) Value {
		stubName("readdir")
		dir := cleanPath(str(a[0]))
		k := s.k()
		var names []string
		for n := range k.dir {
			d := "."
			if i := strings.LastIndex(n, "/"); i >= 0 {
				d = n[:i]
			}
			if d == dir || (dir == "" && d == ".") {
				names = append(names, n)
			}
		}
		sort.Strings(names)
		cells := make([]Value, len(names))
		for i, n := range names {
			base := n
			if j := strings.LastIndex(n, "/"); j >= 0 {
				base = n[j+1:]
			}
			ino := k.dir[n]
			cells[i] = IfaceV{T: dirEntryT, V: NativeV{&kDirEntry{name: base, path: n, ino: ino, size: int64(len(k.inodes[ino].data))}}}
		}
		id := s.newObject(cells, "[]DirEntry")
		return TupleV{SliceV{Obj: id, Len: c64(len(cells)), Cap: c64(len(cells))}, nilErr()}
	})
	simple("native:*main.kDirEntry.Name", func(s *State, a []Value) Value { return StrV(a[0].(NativeV).X.(*kDirEntry).name) })
	regD("native:*main.kDirEntry.Info", func(s *State, a []Value) Value {
		d := a[0].(NativeV).X.(*kDirEntry)
		ino := d.ino
		size := d.size
		// Info is an lstat of the name: it fails when the entry was removed since ReadDir
		if cur, ok := s.k().dir[d.path]; d.path != "" && (!ok || cur != ino) {
			return TupleV{IfaceV{}, errNotExist()}
		}
		if in, ok := s.k().inodes[ino]; ok {
			size = int64(len(in.data))
		}
		return TupleV{IfaceV{T: fileInfoT, V: NativeV{&kFileInfo{name: d.name, ino: ino, size: size}}}, nilErr()}
	})
	simple("native:*main.kFileInfo.Size", func(s *State, a []Value) Value {
		return Const(64, uint64(a[0].(NativeV).X.(*kFileInfo).size))
	})
	simple("native:*main.kFileInfo.Name", func(s *State, a []Value) Value {
		n := a[0].(NativeV).X.(*kFileInfo).name
		if j := strings.LastIndex(n, "/"); j >= 0 {
			n = n[j+1:]
		}
		return StrV(n)
	})
	simple("os.SameFile", func(s *State, a []Value) Value {
		x, ok1 := a[0].(IfaceV).V.(NativeV)
		y, ok2 := a[1].(IfaceV).V.(NativeV)
		if !ok1 || !ok2 {
			return False
		}
		return Bool(x.X.(*kFileInfo).ino == y.X.(*kFileInfo).ino)
	})
	regY("(*os.File).Stat", fileIsLock, func(s *State, a []Value) Value {
		stubName("fstat")
		o, _ := s.kFile(a[0])
		if o == nil {
			return TupleV{IfaceV{}, errClosed()}
		}
		in := s.k().inodes[o.ino]
		return TupleV{IfaceV{T: fileInfoT, V: NativeV{&kFileInfo{name: "", ino: o.ino, size: int64(len(in.data))}}}, nilErr()}
	})
	simple("(*os.File).Sync", func(s *State, a []Value) Value {
		stubName("fsync")
		o, _ := s.kFile(a[0])
		if o == nil {
			return errClosed()
		}
		return nilErr()
	})
	simple("(*os.File).Truncate", func(s *State, a []Value) Value {
		stubName("ftruncate")
		o, _ := s.kFile(a[0])
		if o == nil {
			return errClosed()
		}
		n := int(s.cint(a[1]))
		in := s.k().inodes[o.ino]
		if n <= len(in.data) {
			in.data = in.data[:n:n]
		} else {
			for len(in.data) < n {
				in.data = append(in.data, Const(8, 0))
			}
		}
		s.mmapSyncAll()
		return nilErr()
	})
	simple("(*os.File).Seek", func(s *State, a []Value) Value {
		stubName("lseek")
		o, _ := s.kFile(a[0])
		if o == nil {
			return TupleV{Const(64, 0), errClosed()}
		}
		off := s.cint(a[1])
		switch s.cint(a[2]) {
		case 0:
			o.off = off
		case 1:
			o.off += off
		case 2:
			o.off = int64(len(s.k().inodes[o.ino].data)) + off
		}
		return TupleV{Const(64, uint64(o.off)), nilErr()}
	})
	pread := func(s *State, o *kOFD, buf SliceV, off int64) (int, Value) {
		in := s.k().inodes[o.ino]
		n := s.sliceLen(buf)
		if n == 0 {
			return 0, nilErr()
		}
		if off >= int64(len(in.data)) {
			return 0, nativeErr("io.EOF")
		}
		m := n
		if int64(len(in.data))-off < int64(m) {
			m = int(int64(len(in.data)) - off)
		}
		ob := s.wobj(buf.Obj)
		if ob.Virtual && buf.Off+m > len(ob.Cells) {
			ob = s.materialize(buf.Obj, buf.Off+m)
		}
		copy(ob.Cells[buf.Off:buf.Off+m], in.data[off:off+int64(m)])
		return m, nilErr()
	}
	pwrite := func(s *State, o *kOFD, buf SliceV, off int64) (int, Value) {
		in := s.k().inodes[o.ino]
		cells := s.sliceCells(buf)
		for int64(len(in.data)) < off+int64(len(cells)) {
			in.data = append(in.data, Const(8, 0))
		}
		copy(in.data[off:], cells)
		s.mmapSyncAll()
		return len(cells), nilErr()
	}
	simple("(*os.File).ReadAt", func(s *State, a []Value) Value {
		stubName("pread")
		o, _ := s.kFile(a[0])
		if o == nil {
			return TupleV{Const(64, 0), errClosed()}
		}
		buf := a[1].(SliceV)
		n, err := pread(s, o, buf, s.cint(a[2]))
		if e := err.(IfaceV); e.T == nil && n < s.sliceLen(buf) {
			err = nativeErr("io.EOF") // ReadAt returns a non-nil error when n < len(b)
		}
		return TupleV{Const(64, uint64(n)), err}
	})
	simple("(*os.File).Read", func(s *State, a []Value) Value {
		stubName("read")
		o, _ := s.kFile(a[0])
		if o == nil {
			return TupleV{Const(64, 0), errClosed()}
		}
		n, err := pread(s, o, a[1].(SliceV), o.off)
		o.off += int64(n)
		return TupleV{Const(64, uint64(n)), err}
	})
	simple("(*os.File).WriteAt", func(s *State, a []Value) Value {
		stubName("pwrite")
		o, _ := s.kFile(a[0])
		if o == nil {
			return TupleV{Const(64, 0), errClosed()}
		}
		if o.rdonly {
			return TupleV{Const(64, 0), IfaceV{T: errnoT, V: Const(64, 9)}}
		}
		n, err := pwrite(s, o, a[1].(SliceV), s.cint(a[2]))
		return TupleV{Const(64, uint64(n)), err}
	})
	simple("(*os.File).Write", func(s *State, a []Value) Value {
		stubName("write")
		o, _ := s.kFile(a[0])
		if o == nil {
			return TupleV{Const(64, 0), errClosed()}
		}
		if o.rdonly {
			return TupleV{Const(64, 0), IfaceV{T: errnoT, V: Const(64, 9)}}
		}
		n, err := pwrite(s, o, a[1].(SliceV), o.off)
		o.off += int64(n)
		return TupleV{Const(64, uint64(n)), err}
	})
	// mmap: a snapshot-free view is modelled by a heap object whose cells are
	// refreshed from the inode on every access through Slice (see mmapSync).
	simple("syscall.Mmap", func(s *State, a []Value) Value {
		stubName("mmap")
		fd := int(s.cint(a[0]))
		length := int(s.cint(a[2]))
		k := s.k()
		o := k.ofds[fd]
		if o == nil || o.closed {
			return TupleV{SliceV{Len: c64(0), Cap: c64(0)}, IfaceV{T: errnoT, V: Const(64, 9)}}
		}
		if length <= 0 {
			return TupleV{SliceV{Len: c64(0), Cap: c64(0)}, IfaceV{T: errnoT, V: Const(64, 22)}} // EINVAL
		}
		if length > 1<<16 {
			panic(engineErr(fmt.Sprintf("kernel model: mmap of %d bytes (scale initialMmapSize)", length)))
		}
		cells := make([]Value, length)
		for i := range cells {
			cells[i] = Const(8, 0)
		}
		id := s.newObject(cells, "mmap view")
		s.heap[id].Elem = types.Typ[types.Uint8]
		s.heap[id].Tag = "mmap"
		k.maps[id] = &kMap{ino: o.ino, length: length, live: true}
		s.mmapSync(id)
		return TupleV{SliceV{Obj: id, Len: c64(length), Cap: c64(length)}, nilErr()}
	})
	simple("syscall.Munmap", func(s *State, a []Value) Value {
		stubName("munmap")
		sl := a[0].(SliceV)
		m := s.k().maps[sl.Obj]
		if m == nil || !m.live {
			return IfaceV{T: errnoT, V: Const(64, 22)}
		}
		m.live = false
		s.wobj(sl.Obj).Tag = "unmapped"
		return nilErr()
	})
	simple("syscall.Syscall", func(s *State, a []Value) Value { // madvise
		return TupleV{Const(64, 0), Const(64, 0), Const(64, 0)}
	})
}

// mmapSync refreshes a live mapping's view object from its inode.
func (s *State) mmapSync(id int) {
	m := s.k().maps[id]
	if m == nil || !m.live {
		return
	}
	in := s.k().inodes[m.ino]
	o := s.wobj(id)
	for i := 0; i < m.length; i++ {
		if i < len(in.data) {
			o.Cells[i] = in.data[i]
		} else {
			o.Cells[i] = Const(8, 0)
		}
	}
}

// mmapSyncAll keeps every live view coherent with its file (MAP_SHARED).
func (s *State) mmapSyncAll() {
	if s.kern == nil {
		return
	}
	for id, m := range s.kern.maps {
		if m.live {
			s.mmapSync(id)
		}
	}
}

var errnoT types.Type // syscall.Errno

var _ = ssa.BuilderMode(0)
