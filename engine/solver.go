package main

// Persistent SMT solver process (z3 -in or cvc5 --incremental) fed SMT-LIB2.

import (
	"bufio"
	"fmt"
	"io"
	"os"
	"os/exec"
	"sort"
	"strconv"
	"strings"
	"time"
)

type SatResult int

const (
	Unsat SatResult = iota
	Sat
	Unknown
)

func (r SatResult) String() string { return [...]string{"unsat", "sat", "unknown"}[r] }

type Solver struct {
	name     string
	cmd      *exec.Cmd
	in       io.WriteCloser
	out      *bufio.Reader
	defined  map[int]bool
	declUF   map[string]bool
	log      io.Writer
	Queries  map[string]int // verdict counts
	Time     time.Duration
	cache    map[string]SatResult
	CacheHit int
	WantCore bool
	LastCore []*Expr
	CoreHit  int
	timeout  int
}

func newSolver(kind string, timeoutMs int) (*Solver, error) {
	var cmd *exec.Cmd
	switch kind {
	case "z3":
		cmd = exec.Command("z3", "-in", "-smt2")
	case "z3-new":
		cmd = exec.Command("z3-new", "-in", "-smt2")
	case "cvc5":
		cmd = exec.Command("cvc5", "--incremental", "--lang=smt2", "--produce-models", fmt.Sprintf("--tlimit-per=%d", timeoutMs))
	default:
		return nil, fmt.Errorf("unknown solver %s", kind)
	}
	in, err := cmd.StdinPipe()
	if err != nil {
		return nil, err
	}
	outp, err := cmd.StdoutPipe()
	if err != nil {
		return nil, err
	}
	cmd.Stderr = os.Stderr
	if err := cmd.Start(); err != nil {
		return nil, err
	}
	s := &Solver{name: kind, cmd: cmd, in: in, out: bufio.NewReaderSize(outp, 1<<20), defined: map[int]bool{},
		declUF: map[string]bool{}, Queries: map[string]int{}, cache: map[string]SatResult{}, timeout: timeoutMs}
	if p := os.Getenv("SSAX_SMTLOG"); p != "" {
		f, _ := os.Create(p + "." + kind)
		s.log = f
	}
	if kind != "cvc5" {
		s.send(fmt.Sprintf("(set-option :timeout %d)", timeoutMs))
		s.send("(set-option :model.completion true)")
		s.send("(set-option :produce-unsat-cores true)")
	} else {
		s.send("(set-option :produce-unsat-cores true)")
		s.send("(set-logic ALL)")
	}
	return s, nil
}

func (s *Solver) send(str string) {
	if s.log != nil {
		io.WriteString(s.log, str+"\n")
	}
	io.WriteString(s.in, str+"\n")
}

func (s *Solver) Close() {
	s.send("(exit)")
	s.in.Close()
	s.cmd.Wait()
}

// define emits declarations/definitions for e and everything below it.
func (s *Solver) define(e *Expr) {
	if s.defined[e.id] || e.Op == OpConst {
		return
	}
	// iterative post-order
	type fr struct {
		e *Expr
		i int
	}
	stack := []fr{{e, 0}}
	for len(stack) > 0 {
		top := &stack[len(stack)-1]
		if s.defined[top.e.id] || top.e.Op == OpConst {
			stack = stack[:len(stack)-1]
			continue
		}
		ch := top.e.children()
		if top.i < len(ch) {
			c := ch[top.i]
			top.i++
			if !s.defined[c.id] && c.Op != OpConst {
				stack = append(stack, fr{c, 0})
			}
			continue
		}
		x := top.e
		switch x.Op {
		case OpVar:
			s.send(fmt.Sprintf("(declare-const |%s| %s)", x.Name, sortOf(x.W)))
		case OpUF:
			if !s.declUF[x.Name] {
				s.declUF[x.Name] = true
				var as []string
				for _, a := range x.Args {
					as = append(as, sortOf(a.W))
				}
				s.send(fmt.Sprintf("(declare-fun |%s| (%s) %s)", x.Name, strings.Join(as, " "), sortOf(x.W)))
			}
			s.send(fmt.Sprintf("(define-fun e%d () %s %s)", x.id, sortOf(x.W), x.term()))
		default:
			s.send(fmt.Sprintf("(define-fun e%d () %s %s)", x.id, sortOf(x.W), x.term()))
		}
		s.defined[x.id] = true
		stack = stack[:len(stack)-1]
	}
}

func (s *Solver) readLine() (string, error) {
	line, err := s.out.ReadString('\n')
	return strings.TrimSpace(line), err
}

// readSexp reads one balanced s-expression (possibly multi-line).
func (s *Solver) readSexp() (string, error) {
	var sb strings.Builder
	depth := 0
	started := false
	inBar := false
	for {
		b, err := s.out.ReadByte()
		if err != nil {
			return sb.String(), err
		}
		if !started {
			if b == ' ' || b == '\n' || b == '\r' || b == '\t' {
				continue
			}
			started = true
			if b != '(' {
				// atom: read to end of line
				sb.WriteByte(b)
				rest, err := s.out.ReadString('\n')
				sb.WriteString(strings.TrimSpace(rest))
				return sb.String(), err
			}
		}
		sb.WriteByte(b)
		if b == '|' {
			inBar = !inBar
		}
		if inBar {
			continue
		}
		if b == '(' {
			depth++
		} else if b == ')' {
			depth--
			if depth == 0 {
				return sb.String(), nil
			}
		}
	}
}

func cacheKey(cs []*Expr) string {
	ids := make([]int, 0, len(cs))
	for _, c := range cs {
		ids = append(ids, c.id)
	}
	sort.Ints(ids)
	var sb strings.Builder
	prev := -1
	for _, i := range ids {
		if i == prev {
			continue
		}
		prev = i
		sb.WriteString(strconv.Itoa(i))
		sb.WriteByte(',')
	}
	return sb.String()
}

// leaves collects OpVar / OpUF nodes below the given constraints.
func leaves(cs []*Expr) []*Expr {
	seen := map[*Expr]bool{}
	var out []*Expr
	var stack []*Expr
	stack = append(stack, cs...)
	for len(stack) > 0 {
		e := stack[len(stack)-1]
		stack = stack[:len(stack)-1]
		if seen[e] {
			continue
		}
		seen[e] = true
		if e.Op == OpVar || (e.Op == OpUF && e.W <= 64) {
			out = append(out, e)
		}
		stack = append(stack, e.children()...)
	}
	sort.Slice(out, func(i, j int) bool { return out[i].id < out[j].id })
	return out
}

// Check decides satisfiability of the conjunction cs. If wantModel and the
// result is sat, a model for all leaves is returned.
func (s *Solver) Check(cs []*Expr, wantModel bool) (SatResult, Model) {
	var live []*Expr
	for _, c := range cs {
		if c.IsFalse() {
			return Unsat, nil
		}
		if c.IsTrue() {
			continue
		}
		dup := false
		for _, l := range live {
			if l == c {
				dup = true
				break
			}
		}
		if !dup {
			live = append(live, c)
		}
	}
	if len(live) == 0 && !wantModel {
		return Sat, Model{}
	}
	key := cacheKey(live)
	if !wantModel {
		if r, ok := s.cache[key]; ok {
			s.CacheHit++
			return r, nil
		}
	}
	t0 := time.Now()
	for _, c := range live {
		s.define(c)
	}
	s.send("(push 1)")
	for _, c := range live {
		if c.Op == OpVar {
			s.send("(assert " + c.ref() + ")")
		} else {
			s.send(fmt.Sprintf("(assert (! %s :named a%d))", c.ref(), c.id))
		}
	}
	s.send("(check-sat)")
	res := Unknown
	line, err := s.readLine()
	for err == nil && line == "" {
		line, err = s.readLine()
	}
	if err != nil {
		fatalf("solver %s died: %v (line %q)", s.name, err, line)
	}
	switch {
	case line == "sat":
		res = Sat
	case line == "unsat":
		res = Unsat
	case line == "unknown" || strings.HasPrefix(line, "timeout"):
		res = Unknown
	default:
		// error line: inconclusive; drain nothing else
		fmt.Fprintf(os.Stderr, "SOLVER-ERROR(%s): %s\n", s.name, line)
		s.Queries["error"]++
		res = Unknown
	}
	var m Model
	if res == Sat && wantModel {
		lv := leaves(live)
		m = Model{}
		if len(lv) > 0 {
			var sb strings.Builder
			sb.WriteString("(get-value (")
			for _, l := range lv {
				sb.WriteString(l.ref())
				sb.WriteByte(' ')
			}
			sb.WriteString("))")
			s.send(sb.String())
			txt, err := s.readSexp()
			if err != nil {
				fatalf("solver %s: get-value: %v", s.name, err)
			}
			vals := parseValues(txt)
			if len(vals) != len(lv) {
				fmt.Fprintf(os.Stderr, "SOLVER-ERROR(%s): get-value returned %d values for %d terms: %.200s\n", s.name, len(vals), len(lv), txt)
				res = Unknown
				m = nil
			} else {
				for i, l := range lv {
					m[l] = vals[i] & maskB(l.W)
				}
			}
		}
	}
	s.LastCore = nil
	if res == Unsat && s.WantCore {
		s.send("(get-unsat-core)")
		txt, err := s.readSexp()
		if err == nil {
			byID := map[int]*Expr{}
			for _, c := range live {
				byID[c.id] = c
			}
			ok := true
			var core []*Expr
			for _, t := range tokenize(txt) {
				if t == "(" || t == ")" {
					continue
				}
				var id int
				if _, e := fmt.Sscanf(t, "a%d", &id); e != nil || byID[id] == nil {
					ok = false
					break
				}
				core = append(core, byID[id])
			}
			if ok {
				// unnamed (variable) assertions are always part of the context
				for _, c := range live {
					if c.Op == OpVar {
						core = append(core, c)
					}
				}
				s.LastCore = core
			}
		}
	}
	s.send("(pop 1)")
	s.Time += time.Since(t0)
	s.Queries[res.String()]++
	if res != Unknown {
		s.cache[key] = res
	}
	return res, m
}

// parseValues extracts the value of each (term value) pair of a get-value reply.
func parseValues(txt string) []uint64 {
	// tokenise respecting |...| and parentheses; then walk top-level pairs.
	toks := tokenize(txt)
	var vals []uint64
	// structure: ( (term value) (term value) ... )
	i := 0
	if i < len(toks) && toks[i] == "(" {
		i++
	}
	for i < len(toks) {
		if toks[i] != "(" {
			break
		}
		i++ // enter pair
		// skip term: one sexp
		i = skipSexp(toks, i)
		// value: one sexp
		j := skipSexp(toks, i)
		vals = append(vals, parseValue(toks[i:j]))
		i = j
		if i < len(toks) && toks[i] == ")" {
			i++
		}
	}
	return vals
}

func tokenize(s string) []string {
	var toks []string
	i := 0
	for i < len(s) {
		c := s[i]
		switch {
		case c == '(' || c == ')':
			toks = append(toks, string(c))
			i++
		case c == ' ' || c == '\n' || c == '\t' || c == '\r':
			i++
		case c == '|':
			j := i + 1
			for j < len(s) && s[j] != '|' {
				j++
			}
			toks = append(toks, s[i:j+1])
			i = j + 1
		default:
			j := i
			for j < len(s) && !strings.ContainsRune("() \n\t\r", rune(s[j])) {
				j++
			}
			toks = append(toks, s[i:j])
			i = j
		}
	}
	return toks
}

func skipSexp(toks []string, i int) int {
	if i >= len(toks) {
		return i
	}
	if toks[i] != "(" {
		return i + 1
	}
	d := 0
	for ; i < len(toks); i++ {
		if toks[i] == "(" {
			d++
		} else if toks[i] == ")" {
			d--
			if d == 0 {
				return i + 1
			}
		}
	}
	return i
}

func parseValue(toks []string) uint64 {
	if len(toks) == 1 {
		t := toks[0]
		switch {
		case t == "true":
			return 1
		case t == "false":
			return 0
		case strings.HasPrefix(t, "#x"):
			v, _ := strconv.ParseUint(t[2:], 16, 64)
			return v
		case strings.HasPrefix(t, "#b"):
			v, _ := strconv.ParseUint(t[2:], 2, 64)
			return v
		}
		return 0
	}
	// (_ bvN w)
	if len(toks) == 5 && toks[1] == "_" && strings.HasPrefix(toks[2], "bv") {
		v, _ := strconv.ParseUint(toks[2][2:], 10, 64)
		return v
	}
	return 0
}
